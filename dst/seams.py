'''
Import radical.pilot from the working tree under test and replace the module
globals through which it reaches nondeterminism.  Nothing in /repo is edited.
'''

import os
import sys
import importlib

REPO_SRC = os.environ.get('VERIF_REPO_SRC', '/repo/src')

_rp = None


def import_rp():
    '''import radical.pilot from REPO_SRC (VERSION file may be absent)'''
    global _rp
    if _rp is not None:
        return _rp

    if REPO_SRC in sys.path:
        sys.path.remove(REPO_SRC)
    sys.path.insert(0, REPO_SRC)

    import radical.utils as ru
    # `radical` is a namespace-ish package: make sure radical.pilot resolves
    # to the tree under test, not to an installed copy
    import radical
    pth = os.path.join(REPO_SRC, 'radical')
    if hasattr(radical, '__path__') and pth not in list(radical.__path__):
        try:
            radical.__path__.insert(0, pth)
        except AttributeError:
            radical.__path__ = [pth] + list(radical.__path__)

    real_get_version = ru.get_version

    def get_version(*a, **k):
        try:
            return real_get_version(*a, **k)
        except Exception:
            v = '0.0.0'
            try:
                with open(os.path.join(os.path.dirname(REPO_SRC),
                                       'VERSION')) as f:
                    v = f.read().strip()
            except Exception:
                pass
            return v, v, '', '', v

    ru.get_version = get_version
    try:
        import radical.pilot as rp
    finally:
        ru.get_version = real_get_version

    # radical.pilot imports many plugins lazily (factories): pull them in now
    # so that patch() sees all modules.  popen.py installs signal handlers on
    # import - put the defaults back.
    import pkgutil
    import signal
    skip = ('flux', 'dragon', 'worker_mpi', 'yarn', 'pmgr.launching')
    for m in pkgutil.walk_packages(rp.__path__, 'radical.pilot.'):
        if any(x in m.name for x in skip):
            continue
        try:
            importlib.import_module(m.name)
        except BaseException:                                      # noqa
            pass
    signal.signal(signal.SIGTERM, signal.SIG_DFL)
    signal.signal(signal.SIGINT,  signal.default_int_handler)

    src = os.path.realpath(rp.__file__)
    if not src.startswith(os.path.realpath(REPO_SRC) + os.sep):
        raise RuntimeError('radical.pilot imported from %s, not from %s'
                           % (src, REPO_SRC))
    _rp = rp
    return rp


def rp_modules():
    import_rp()
    return {n: m for n, m in sys.modules.items()
            if m is not None and (n == 'radical.pilot' or
                                  n.startswith('radical.pilot.'))}


_patched = False


def patch(ru_overrides=None, os_faulty=()):
    '''
    replace time / mt / mp / queue / sp / ru (and os where process identity or
    signalling is used) in every imported radical.pilot module.
    Idempotent; returns the RuProxy (so worlds can tune overrides per run).
    '''
    global _patched
    from . import prims as P
    from . import net   as N

    mods = rp_modules()

    if _patched:
        return _patched

    simtime = P.SimTime()
    simmt   = P.SimThreading()
    simmp   = P.SimMP()
    simq    = P.SimQueueMod()
    simsp   = P.SimSubprocess()
    simos   = P.SimOs(faulty=('open', 'write', 'link', 'symlink', 'rename',
                              'makedirs', 'mkdir', 'stat', 'chmod'))
    rup     = N.RuProxy(ru_overrides)
    simsys  = P.SimSys()
    sys_modules = ('radical.pilot.raptor.worker',
                   'radical.pilot.raptor.worker_default',
                   'radical.pilot.utils.component')

    import time, threading, multiprocessing, queue, subprocess
    import radical.utils as ru

    os_modules = ('radical.pilot.agent.executing.popen',
                  'radical.pilot.agent.executing.base',
                  'radical.pilot.agent.executing.noop',
                  'radical.pilot.agent.launch_method.base',
                  'radical.pilot.agent.launch_method.srun',
                  'radical.pilot.agent.scheduler.base',
                  'radical.pilot.utils.component',
                  'radical.pilot.agent.agent_0',
                  'radical.pilot.raptor.master',
                  'radical.pilot.raptor.worker',
                  'radical.pilot.raptor.worker_default')

    for name, mod in mods.items():
        d = mod.__dict__
        for k, v in list(d.items()):
            if v is time:
                d[k] = simtime
            elif v is threading:
                d[k] = simmt
            elif v is multiprocessing:
                d[k] = simmp
            elif v is queue:
                d[k] = simq
            elif v is subprocess:
                d[k] = simsp
            elif v is ru:
                d[k] = rup
            elif v is os and name in os_modules:
                d[k] = simos

    _patched = rup
    rup.simos = simos
    return rup


# ------------------------------------------------------------------------------
# process-global state of radical.pilot which one universe could leak into the
# next one in the same OS process (class level mutable defaults of the
# FastTypedDict classes are shared between instances; module level registries)
#
_snap = None


def reset_globals():
    import copy
    global _snap
    mods = rp_modules()
    if _snap is None:
        _snap = dict()
        for name, mod in mods.items():
            for k, v in list(mod.__dict__.items()):
                if isinstance(v, type) and isinstance(
                        v.__dict__.get('_defaults'), dict):
                    _snap[v] = copy.deepcopy(v.__dict__['_defaults'])
    for cls, dflt in _snap.items():
        cls._defaults = copy.deepcopy(dflt)
    comp = mods.get('radical.pilot.utils.component')
    if comp is not None:
        del comp._components[:]
    popen = mods.get('radical.pilot.agent.executing.popen')
    if popen is not None:
        del popen._pids[:]
