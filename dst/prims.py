'''
Simulated replacements for the module globals through which radical.pilot
reaches nondeterminism: time, threading (mt), multiprocessing (mp), queue,
subprocess (sp) and os.  Every blocking call is a yield point of the kernel.
'''

import os        as _os
import sys       as _sys
import copy      as _copy
import time      as _time
import queue     as _queue
import pickle    as _pickle
import signal    as _signal
import threading as _threading
import subprocess as _subprocess

from . import kernel as K


def _sim():
    return K.cur()


# ------------------------------------------------------------------------------
# time
#
class SimTime(object):

    def time(self):
        return _sim().now

    def monotonic(self):
        return _sim().now

    def perf_counter(self):
        return _sim().now

    def sleep(self, dt):
        _sim().sleep(dt)

    def __getattr__(self, k):
        return getattr(_time, k)


# ------------------------------------------------------------------------------
# threading
#
class Lock(object):

    _shared = False

    def __init__(self):
        self._owner = None

    def __deepcopy__(self, memo):
        if self._shared:
            return self
        return type(self)()

    def acquire(self, blocking=True, timeout=-1):
        sim = _sim()
        if not sim.in_sim_thread():
            if self._owner is None:
                self._owner = 'ext'
                return True
            raise K.HarnessError('lock contention outside sim')
        me = sim.current
        if not blocking:
            sim.yield_('lock.try')
            if self._owner is None:
                self._owner = me
                return True
            return False
        to = None if (timeout is None or timeout < 0) else timeout
        ok = sim.block(lambda: self._owner is None, to, what='lock')
        if ok:
            self._owner = me
        return ok

    def release(self):
        if self._owner is None:
            raise RuntimeError('release unlocked lock')
        self._owner = None
        if not _sim().tearing_down:
            _sim().yield_('lock.release')

    def locked(self):
        return self._owner is not None

    def __enter__(self):
        self.acquire()
        return self

    def __exit__(self, *a):
        self.release()


class RLock(object):

    _shared = False

    def __init__(self):
        self._owner = None
        self._count = 0

    def __deepcopy__(self, memo):
        if self._shared:
            return self
        return type(self)()

    def acquire(self, blocking=True, timeout=-1):
        sim = _sim()
        if not sim.in_sim_thread():
            me = 'ext'
        else:
            me = sim.current
        if self._owner is me:
            self._count += 1
            return True
        if me == 'ext':
            if self._owner is None:
                self._owner, self._count = me, 1
                return True
            raise K.HarnessError('rlock contention outside sim')
        if not blocking:
            sim.yield_('rlock.try')
            if self._owner is None:
                self._owner, self._count = me, 1
                return True
            return False
        to = None if (timeout is None or timeout < 0) else timeout
        ok = sim.block(lambda: self._owner is None, to, what='rlock')
        if ok:
            self._owner, self._count = me, 1
        return ok

    def release(self):
        if self._owner is None:
            raise RuntimeError('release unlocked rlock')
        self._count -= 1
        if self._count == 0:
            self._owner = None
            if not _sim().tearing_down:
                _sim().yield_('rlock.release')

    def __enter__(self):
        self.acquire()
        return self

    def __exit__(self, *a):
        self.release()


class Event(object):

    _shared = False

    def __init__(self):
        self._flag = False

    def __deepcopy__(self, memo):
        if self._shared:
            return self
        e = type(self)()
        e._flag = self._flag
        return e

    def is_set(self):
        return self._flag or _sim().tearing_down

    isSet = is_set

    def set(self):
        self._flag = True
        if not _sim().tearing_down:
            _sim().yield_('event.set')

    def clear(self):
        self._flag = False

    unset = clear

    def wait(self, timeout=None):
        return _sim().block(lambda: self._flag, timeout, what='event.wait')


class Thread(object):
    '''subclassable like threading.Thread (radical.pilot's Idler does)'''

    def __init__(self, group=None, target=None, name=None, args=(),
                 kwargs=None, daemon=None):
        self._sim_target = target
        self._sim_args   = tuple(args)
        self._sim_kwargs = kwargs or {}
        self._sim_name   = name
        self._sim_thread = None
        self.daemon      = True if daemon is None else daemon

    def __deepcopy__(self, memo):
        return self

    @property
    def name(self):
        if self._sim_thread is not None:
            return self._sim_thread.name
        return self._sim_name or 'thread'

    @name.setter
    def name(self, v):
        self._sim_name = v

    @property
    def ident(self):
        return self.name

    def _sim_label(self):
        if self._sim_name:
            return str(self._sim_name)
        tgt = self._sim_target
        if tgt is not None:
            own = getattr(tgt, '__self__', None)
            uid = getattr(own, '_uid', None) or getattr(own, 'uid', None)
            base = getattr(tgt, '__name__', 'fn')
            if isinstance(uid, str):
                return '%s.%s' % (uid, base)
            return base
        return type(self).__name__

    def start(self):
        sim = _sim()
        if self._sim_thread is not None:
            raise RuntimeError('threads can only be started once')
        self._sim_thread = sim.spawn(self._sim_boot, self._sim_label())
        sim.yield_('thread.start')

    def _sim_boot(self):
        self.run()

    def run(self):
        if self._sim_target is not None:
            self._sim_target(*self._sim_args, **self._sim_kwargs)

    def join(self, timeout=None):
        t = self._sim_thread
        if t is None:
            raise RuntimeError('cannot join thread before it is started')
        _sim().block(lambda: t.state == K.DONE, timeout, what='join')

    def is_alive(self):
        t = self._sim_thread
        return t is not None and t.state != K.DONE

    isAlive = is_alive


class SimThreading(object):

    Thread = Thread
    Lock   = Lock
    RLock  = RLock
    Event  = Event

    @staticmethod
    def current_thread():
        sim = _sim()
        class _T(object):
            pass
        t = _T()
        t.name = sim.current.name if sim.current else 'MainThread'
        t.ident = t.name
        return t

    @staticmethod
    def get_ident():
        sim = _sim()
        return sim.current.name if sim.current else 'MainThread'

    def __getattr__(self, k):
        raise AttributeError('SimThreading has no %s' % k)


# ------------------------------------------------------------------------------
# queue
#
class Queue(object):
    '''queue.Queue; with `_shared` also multiprocessing.Queue (pickles items)'''

    _shared = False

    def __init__(self, maxsize=0):
        self._items = list()
        self._name  = None

    def __deepcopy__(self, memo):
        if self._shared:
            return self
        q = type(self)()
        q._items = _copy.deepcopy(self._items, memo)
        return q

    def _enc(self, item):
        if self._shared:
            return _pickle.loads(_pickle.dumps(item))
        return item

    def put(self, item, block=True, timeout=None):
        item = self._enc(item)
        self._items.append(item)
        _sim().yield_('queue.put')

    def put_nowait(self, item):
        self.put(item)

    def get(self, block=True, timeout=None):
        sim = _sim()
        if not block:
            timeout = 0
        ok = sim.block(lambda: bool(self._items), timeout, what='queue.get')
        if not ok:
            raise _queue.Empty()
        return self._items.pop(0)

    def get_nowait(self):
        return self.get(block=False)

    def empty(self):
        return not self._items

    def qsize(self):
        return len(self._items)

    def close(self):
        pass

    def join_thread(self):
        pass

    def cancel_join_thread(self):
        pass


class SimQueueMod(object):
    Queue = Queue
    Empty = _queue.Empty
    Full  = _queue.Full


# ------------------------------------------------------------------------------
# multiprocessing
#
class MPQueue(Queue):
    _shared = True


class MPEvent(Event):
    _shared = True


class MPLock(Lock):
    _shared = True


def fork_copy(obj):
    '''emulate the memory image a fork() gives the child'''
    return _copy.deepcopy(obj)


class Process(object):
    '''
    multiprocessing.Process with fork emulation: the target runs in a new sim
    process on a deep copy of the parent's objects; IPC capable sim objects are
    shared (their __deepcopy__ returns self).
    '''

    def __init__(self, group=None, target=None, name=None, args=(),
                 kwargs=None, daemon=None):
        self._target = target
        self._args   = tuple(args)
        self._kwargs = kwargs or {}
        self._name   = name
        self.daemon  = daemon
        self._proc   = None
        self._main   = None

    def __deepcopy__(self, memo):
        return self

    @property
    def pid(self):
        return self._proc.pid if self._proc else None

    @property
    def exitcode(self):
        return self._proc.exitcode if self._proc else None

    @property
    def name(self):
        return self._name or 'Process'

    def start(self):
        sim    = _sim()
        target = self._target
        own    = getattr(target, '__self__', None)
        label  = self._name or getattr(target, '__name__', 'proc')
        uid    = getattr(own, '_uid', None)
        if isinstance(uid, str):
            label = '%s.%s' % (uid, label)
        ff = sim.data.get('fork_fault')
        if ff and ff(label):
            # fork() fails: EAGAIN (process limit) - a legal outcome
            sim.fault('fork_fail')
            sim.log('fork_fail', label=label)
            raise OSError(11, 'Resource temporarily unavailable')
        proc = sim.new_process(label, parent=sim.cur_proc())
        # copy the interpreter context of the parent
        proc.ctx = dict(sim.cur_proc().ctx)
        if isinstance(proc.ctx.get('environ'), dict):
            proc.ctx['environ'] = dict(proc.ctx['environ'])
        if own is not None:
            memo = {}
            child_self = _copy.deepcopy(own, memo)
            fn   = getattr(child_self, target.__name__)
            args = _copy.deepcopy(self._args, memo)
            kw   = _copy.deepcopy(self._kwargs, memo)
        else:
            fn, args, kw = target, _copy.deepcopy(self._args), \
                           _copy.deepcopy(self._kwargs)
        self._proc = proc
        self._child_self = own is not None and child_self or None
        sim.data.setdefault('forks', []).append((label, own, self._child_self))

        def main():
            try:
                fn(*args, **kw)
                proc.exitcode = 0
            except SystemExit as e:
                proc.exitcode = e.code if isinstance(e.code, int) else 1
            finally:
                proc.alive = False
                if proc.exitcode is None:
                    proc.exitcode = 1

        self._main = sim.spawn(main, label + '.main', proc=proc, group=label)
        sim.log('fork', child=proc.name)
        sim.yield_('proc.start')

    def is_alive(self):
        return self._proc is not None and self._proc.alive

    def join(self, timeout=None):
        p = self._proc
        _sim().block(lambda: not p.alive, timeout, what='proc.join')

    def terminate(self):
        sim = _sim()
        p = self._proc
        if p is None or not p.alive:
            return
        sim.log('proc_terminate', child=p.name)
        p.alive = False
        p.exitcode = -15
        sim.kill_threads([t for t in p.threads])

    kill = terminate


class SimMP(object):
    Process = Process
    Queue   = MPQueue
    Event   = MPEvent
    Lock    = MPLock

    @staticmethod
    def current_process():
        return _sim().cur_proc()

    @staticmethod
    def set_start_method(*a, **k):
        pass

    @staticmethod
    def cpu_count():
        return 64


# ------------------------------------------------------------------------------
# subprocess
#
class SimProc(object):
    '''
    a simulated task process.  The world installs `sim.data['proc_plan']`:
    a callable (args, kwargs) -> dict(runtime=, rc=, spawn_error=, racy=)
    '''

    def __init__(self, sim, plan, args, kwargs):
        self.sim      = sim
        self.args     = args
        self.kwargs   = kwargs
        self.plan     = plan
        self.tag      = plan.get('tag')
        self.pid      = 'tpid.%s' % sim.uniq('p')       # never an int
        self.start_t  = sim.now
        self.end_at   = sim.now + plan.get('runtime', 0.0)
        self.rc_plan  = plan.get('rc', 0)
        self.racy     = plan.get('racy', False)
        self.returncode = None
        self._rc      = None      # exit status once the process is gone
        self.reaped   = False
        self.signals  = list()
        self.stdout   = None
        self.stderr   = None
        sim.data.setdefault('procs', dict())[self.pid] = self
        sim.log('proc_spawn', pid=self.pid, tag=self.tag)

    def __deepcopy__(self, memo):
        return self

    def __reduce__(self):
        raise TypeError('cannot pickle SimProc (like subprocess.Popen)')

    # the process state machine ------------------------------------------------
    def _exit(self, rc, why):
        if self._rc is None:
            self._rc = rc
            self.exit_seq = len(self.sim.events)
            self.sim.log('proc_exit', pid=self.pid, tag=self.tag, rc=rc,
                         why=why)

    def _tick(self, racepoint=True):
        '''process exits when its time has come (or, if racy, right now)'''
        sim = self.sim
        if self._rc is None:
            if sim.now >= self.end_at:
                self._exit(self.rc_plan, 'time')
            elif self.racy and racepoint and sim.ch.coin(0.15, 'kill_race'):
                sim.fault('kill_race')
                self._exit(self.rc_plan, 'race')

    def exited(self):
        self._tick(racepoint=False)
        return self._rc is not None

    def signal(self, sig):
        sim = self.sim
        self._tick()
        sim.log('proc_signal', pid=self.pid, tag=self.tag, sig=int(sig),
                gone=self._rc is not None)
        if self.reaped:
            raise ProcessLookupError(3, 'No such process')
        if self._rc is not None:
            return       # zombie: signal is accepted and ignored
        self.signals.append(int(sig))
        if sig == _signal.SIGKILL:
            self._exit(-9, 'sigkill')
        else:
            grace = self.plan.get('term_grace', 0.0)
            if grace <= 0:
                self._exit(-int(sig), 'signal')
            else:
                # dies after the grace period unless killed harder before
                self.end_at  = min(self.end_at, sim.now + grace) \
                               if self.rc_plan == -int(sig) else sim.now + grace
                self.rc_plan = -int(sig)

    # Popen API ----------------------------------------------------------------
    def poll(self):
        self.sim.yield_('proc.poll')
        self._tick()
        if self._rc is not None:
            self.reaped     = True
            self.returncode = self._rc
        return self.returncode

    def wait(self, timeout=None):
        ok = self.sim.block(self.exited, timeout, what='proc.wait')
        if not ok:
            raise _subprocess.TimeoutExpired(self.args, timeout)
        self.reaped     = True
        self.returncode = self._rc
        return self.returncode

    def communicate(self, input=None, timeout=None):
        self.wait(timeout)
        return self.plan.get('out', ''), self.plan.get('err', '')

    def kill(self):
        self.signal(_signal.SIGKILL)

    def terminate(self):
        self.signal(_signal.SIGTERM)

    def send_signal(self, sig):
        self.signal(sig)


class SimSubprocess(object):

    PIPE    = _subprocess.PIPE
    STDOUT  = _subprocess.STDOUT
    DEVNULL = _subprocess.DEVNULL
    TimeoutExpired     = _subprocess.TimeoutExpired
    CalledProcessError = _subprocess.CalledProcessError

    @staticmethod
    def Popen(*args, **kwargs):
        sim = _sim()
        sim.yield_('sp.Popen')
        if args and 'args' not in kwargs:
            kwargs['args'] = args[0]
        plan = sim.data['proc_plan'](kwargs.get('args'), kwargs)
        err  = plan.get('spawn_error')
        if err:
            sim.fault('spawn_fail')
            sim.log('proc_spawn_fail', tag=plan.get('tag'))
            raise err
        return SimProc(sim, plan, kwargs.get('args'), kwargs)


# ------------------------------------------------------------------------------
# os
#
class SimOs(object):
    '''
    proxy for the `os` module: process identity and signalling are simulated,
    a small set of file calls can be failed by the world's fault plan, the
    rest is the real thing.
    '''

    def __init__(self, faulty=()):
        self._faulty = set(faulty)
        self.path    = _os.path

    # per sim process environment (worlds which need it put an `environ` dict
    # into the root process context; forks copy it)
    @property
    def environ(self):
        sim = K.CUR
        if sim is not None:
            env = sim.cur_proc().ctx.get('environ')
            if env is not None:
                return env
        return _os.environ

    @environ.setter
    def environ(self, value):
        sim = K.CUR
        if sim is not None and 'environ' in sim.cur_proc().ctx:
            sim.cur_proc().ctx['environ'] = value
        else:
            raise K.HarnessError('os.environ replaced outside a sim process '
                                 'context')

    def getenv(self, key, default=None):
        return self.environ.get(key, default)

    def chdir(self, path):
        sim = K.CUR
        if sim is not None and 'cwd' in sim.cur_proc().ctx:
            sim.cur_proc().ctx['cwd'] = path
            return
        return _os.chdir(path)

    def getcwd(self):
        sim = K.CUR
        if sim is not None and 'cwd' in sim.cur_proc().ctx:
            return sim.cur_proc().ctx['cwd']
        return _os.getcwd()

    def getpid(self):
        return _sim().cur_proc().pid

    def getppid(self):
        p = _sim().cur_proc().parent
        return p.pid if p else 'pid.init'

    def killpg(self, pid, sig):
        sim = _sim()
        sim.yield_('os.killpg')
        proc = sim.data.get('procs', {}).get(pid)
        if proc is None:
            if isinstance(pid, int):
                raise K.HarnessError('killpg on a real pid %r' % pid)
            raise ProcessLookupError(3, 'No such process')
        proc.signal(sig)

    def kill(self, pid, sig):
        return self.killpg(pid, sig)

    def getpgid(self, pid):
        return pid

    def __getattr__(self, k):
        real = getattr(_os, k)
        if k in self._faulty:
            def wrapped(*a, **kw):
                sim  = _sim()
                hook = sim.data.get('os_fault')
                if hook:
                    exc = hook(k, a, kw)
                    if exc is not None:
                        raise exc
                return real(*a, **kw)
            return wrapped
        return real


# ------------------------------------------------------------------------------
# sys (only for modules which redirect stdio: raptor)
#
class SimSys(object):
    '''`sys` with per sim process stdout / stderr'''

    @property
    def stdout(self):
        sim = K.CUR
        if sim is not None and 'stdout' in sim.cur_proc().ctx:
            return sim.cur_proc().ctx['stdout']
        return _sys.stdout

    @stdout.setter
    def stdout(self, v):
        sim = K.CUR
        if sim is not None and 'stdout' in sim.cur_proc().ctx:
            sim.cur_proc().ctx['stdout'] = v
        else:
            raise K.HarnessError('sys.stdout replaced outside a sim context')

    @property
    def stderr(self):
        sim = K.CUR
        if sim is not None and 'stderr' in sim.cur_proc().ctx:
            return sim.cur_proc().ctx['stderr']
        return _sys.stderr

    @stderr.setter
    def stderr(self, v):
        sim = K.CUR
        if sim is not None and 'stderr' in sim.cur_proc().ctx:
            sim.cur_proc().ctx['stderr'] = v
        else:
            raise K.HarnessError('sys.stderr replaced outside a sim context')

    def __getattr__(self, k):
        return getattr(_sys, k)
