'''
./check <property> [--tier quick|thorough] [--replay FILE] [--seeds N]
./check selftest determinism [<property> ...]

Seeded search over simulated runs.  Exit 0: property held on everything
explored (KNOWN-FINDING lines possible); exit 1: `VIOLATION property=<id>
replay=<path>`; exit 2: harness error / nothing conclusive.
'''

import os
import sys
import json
import time
import random
import select
import signal
import hashlib
import importlib
import faulthandler

HERE = os.path.dirname(os.path.abspath(__file__))
ROOT = os.path.dirname(HERE)

if os.environ.get('PYTHONHASHSEED') is None:
    os.environ['PYTHONHASHSEED'] = '0'
    os.execv(sys.executable, [sys.executable] + sys.argv)

sys.path.insert(0, ROOT)
sys.setswitchinterval(1e-6 if False else 0.005)

JOBS       = int(os.environ.get('VERIF_JOBS', '16'))
REPLAYS    = os.environ.get('VERIF_REPLAYS') or os.path.join(ROOT, 'replays')
EVIDENCE   = os.environ.get('VERIF_EVIDENCE') or os.path.join(ROOT, 'evidence')
KNOWN_FILE = os.path.join(ROOT, 'known_findings.json')

CHECKS = {
    'C01': 'dst.checks.c01',
    'C02': 'dst.checks.c02',
    'C03': 'dst.checks.c03',
    'C04': 'dst.checks.c04',
    'C07': 'dst.checks.c07',
    'C08': 'dst.checks.c08',
    'C05': 'dst.checks.c05',
    'C06': 'dst.checks.c06',
    'C09': 'dst.checks.c09',
    'C11': 'dst.checks.c11',
    'C12': 'dst.checks.c12',
    'C13': 'dst.checks.c13',
    'C14': 'dst.checks.c14',
    'C15': 'dst.checks.c15',
    'C16': 'dst.checks.c16',
    'C20': 'dst.checks.c20',
}

DEFAULT_SEEDS = {'quick': 400, 'thorough': 20000}
DEFAULT_BUDGET = {'quick': 150, 'thorough': 1500}


# ------------------------------------------------------------------------------
#
def load(prop):
    return importlib.import_module(CHECKS[prop])


def signature(v):
    return '%s|%s|%s' % (v['property'], v['clause'], v['site'])


def scenario_for(mod, seed, tier):
    rng = random.Random('%s:gen' % seed)
    return mod.gen(rng, tier)


def run_seed(mod, seed, tier, scenario=None, trace=None, keep=False):
    '''run one universe; returns a JSON-able summary'''
    if scenario is None:
        scenario = scenario_for(mod, seed, tier)
    t0  = time.time()
    res = mod.run(seed, scenario, trace=trace, tier=tier)
    if isinstance(scenario, dict) and scenario.get('kinds'):
        # anomalies written into a generated notification history (dup,
        # reorder, skipped, stale, contradictory ...) count as injected faults
        res['faults'] = dict(res['faults'])
        for k in scenario['kinds']:
            key = 'history:%s' % k
            res['faults'][key] = res['faults'].get(key, 0) + 1
    if os.environ.get('VERIF_EVENT_DUMP'):
        # diagnosis of divergent digests: exactly what the digest is made of
        try:
            with open('%s/%s-%s-%d.ev' % (os.environ['VERIF_EVENT_DUMP'],
                                          mod.PROP, seed, os.getpid()),
                      'w') as f:
                for ev in res['sim'].events:
                    f.write(repr(sorted((k, v) for k, v in ev.items()
                                        if k != 'obj')) + '\n')
        except Exception:
            pass
    out = {'seed'     : seed,
           'status'   : res['status'],
           'sigs'     : sorted({signature(v) for v in res['violations']}),
           'steps'    : res['steps'],
           'sim_time' : res['sim_time'],
           'faults'   : res['faults'],
           'probes'   : res['probes'],
           'digest'   : res['digest'],
           'nontrivial': bool(res.get('nontrivial')),
           'state_fp' : res.get('state_fp'),
           'end'      : res.get('end'),
           'wall'     : round(time.time() - t0, 4),
           'diverged' : res.get('diverged', False)}
    if res['status'] in ('harness_error', 'inconclusive'):
        out['error'] = [str(x)[:2000] for x in (res.get('error') or ())]
    if res['status'] == 'violation' or keep:
        out['scenario']   = scenario
        out['violations'] = [{k: v[k] for k in
                              ('property', 'clause', 'site', 'detail', 'seq',
                               't')} for v in res['violations'][:5]]
        out['trace']      = res['trace']
    if keep:
        out['events'] = res['sim'].events
    return out


# ------------------------------------------------------------------------------
# a small process pool: fork per block of seeds, results through a pipe,
# hard deadline per block (a hung universe never counts as pass)
#
def _child(mod_name, tier, seeds, wfd, per_run_timeout):
    mod = importlib.import_module(mod_name)
    with os.fdopen(wfd, 'w') as w:
        for seed in seeds:
            faulthandler.dump_traceback_later(per_run_timeout, exit=True)
            try:
                out = run_seed(mod, seed, tier)
            except BaseException as e:                         # noqa
                import traceback
                out = {'seed': seed, 'status': 'harness_error',
                       'error': [repr(e), traceback.format_exc()[-2000:]],
                       'sigs': [], 'steps': 0, 'sim_time': 0, 'faults': {},
                       'probes': {}, 'digest': '', 'nontrivial': False,
                       'wall': 0}
            faulthandler.cancel_dump_traceback_later()
            w.write(json.dumps(out, default=repr) + '\n')
            w.flush()
    os._exit(0)


def sweep(prop, tier, seeds, budget, block=25, per_run_timeout=120):
    mod_name = CHECKS[prop]
    load(prop)                       # import once in the parent (fork shares)
    pending  = [seeds[i:i + block] for i in range(0, len(seeds), block)]
    running  = dict()                # rfd -> (pid, buf, seeds, t_start)
    results  = dict()
    t_end    = time.time() + budget
    skipped  = 0

    def start(blk):
        r, w = os.pipe()
        pid = os.fork()
        if pid == 0:
            os.close(r)
            try:
                _child(mod_name, tier, blk, w, per_run_timeout)
            finally:
                os._exit(1)
        os.close(w)
        running[r] = [pid, b'', blk, time.time()]

    while pending or running:
        while pending and len(running) < JOBS:
            if time.time() > t_end:
                skipped += sum(len(b) for b in pending)
                pending = []
                break
            start(pending.pop(0))
        if not running:
            break
        rl, _, _ = select.select(list(running.keys()), [], [], 1.0)
        now = time.time()
        for r in rl:
            data = os.read(r, 1 << 20)
            ent  = running[r]
            if data:
                ent[1] += data
                while b'\n' in ent[1]:
                    line, ent[1] = ent[1].split(b'\n', 1)
                    out = json.loads(line)
                    results[out['seed']] = out
            else:
                os.close(r)
                pid = ent[0]
                try:
                    os.waitpid(pid, 0)
                except ChildProcessError:
                    pass
                for s in ent[2]:
                    if s not in results:
                        results[s] = {'seed': s, 'status': 'harness_error',
                                      'error': ['worker died / hung'],
                                      'sigs': [], 'steps': 0, 'sim_time': 0,
                                      'faults': {}, 'probes': {},
                                      'digest': '', 'nontrivial': False,
                                      'wall': 0}
                del running[r]
        for r, ent in list(running.items()):
            if now - ent[3] > per_run_timeout * len(ent[2]) + 30:
                try:
                    os.kill(ent[0], signal.SIGKILL)
                except ProcessLookupError:
                    pass
    return [results[s] for s in sorted(results)], skipped


# ------------------------------------------------------------------------------
#
def load_known():
    if not os.path.exists(KNOWN_FILE):
        return {'findings': [], 'fixed': []}
    with open(KNOWN_FILE) as f:
        return json.load(f)


def minimise(mod, seed, tier, scenario, sig, effort=400, deadline=None):
    '''greedy reduction of the scenario; the schedule is re-searched with a
    few seeds per candidate, and a candidate is kept only if the same
    violation signature reappears.  Bounded by a number of runs and by a
    wall clock deadline (what is reached by then is reported).'''
    if not hasattr(mod, 'shrink'):
        return scenario, seed
    tries = 0
    best, best_seed = scenario, seed
    improved = True

    def late():
        return deadline is not None and time.time() > deadline
    while improved and tries < effort and not late():
        improved = False
        for cand in mod.shrink(best):
            if tries >= effort or late():
                break
            for s in (best_seed, best_seed + 1, best_seed + 2):
                if late():
                    break
                tries += 1
                try:
                    out = run_seed(mod, s, tier, scenario=cand)
                except Exception:
                    continue
                if sig in out['sigs']:
                    best, best_seed = cand, s
                    improved = True
                    break
            if improved:
                break
    return best, best_seed


def write_replay(prop, sig, seed, tier, mod, scenario):
    os.makedirs(REPLAYS, exist_ok=True)
    out = run_seed(mod, seed, tier, scenario=scenario, keep=True)
    h = hashlib.sha1(sig.encode()).hexdigest()[:10]
    path = os.path.join(REPLAYS, '%s-%s.json' % (prop, h))
    doc = {'property' : prop,
           'signature': sig,
           'seed'     : seed,
           'tier'     : tier,
           'scenario' : scenario,
           'trace'    : out.get('trace'),
           'digest'   : out['digest'],
           'violations': out.get('violations'),
           'history'  : [{k: v for k, v in e.items() if k != 'obj'}
                         for e in out.get('events', [])][-400:]}
    with open(path, 'w') as f:
        json.dump(doc, f, indent=1, default=repr)
    return path, out


def replay(prop, path):
    mod = load(prop)
    with open(path) as f:
        doc = json.load(f)
    out = run_seed(mod, doc['seed'], doc.get('tier', 'quick'),
                   scenario=doc['scenario'], trace=doc.get('trace'),
                   keep=True)
    same = doc['signature'] in out['sigs']
    print('replay %s: status=%s sigs=%s digest_match=%s diverged=%s'
          % (path, out['status'], out['sigs'],
             out['digest'] == doc.get('digest'), out['diverged']))
    for v in out.get('violations') or []:
        print('  ', json.dumps(v, default=repr)[:1000])
    if same:
        print('VIOLATION property=%s replay=%s' % (prop, path))
        return 1
    return 0


# ------------------------------------------------------------------------------
#
def check(prop, tier, nseeds=None, budget=None):

    mod   = load(prop)
    base  = int(os.environ.get('VERIF_SEED', '0'))
    if nseeds is None:
        nseeds = getattr(mod, 'SEEDS', DEFAULT_SEEDS)[tier]
    if budget is None:
        budget = int(os.environ.get('VERIF_BUDGET_S', 0)) or \
                 getattr(mod, 'BUDGET', DEFAULT_BUDGET)[tier]
    seeds = [base * 1000000 + i for i in range(nseeds)]

    t0 = time.time()
    results, skipped = sweep(prop, tier, seeds, budget,
                             block=getattr(mod, 'BLOCK', 25))
    # a worker which died or hung takes the rest of its block with it, and
    # an overloaded machine may make a run miss its wall clock limit: every
    # such seed gets a second chance, alone in a fresh worker
    bad = [r['seed'] for r in results if r['status'] == 'harness_error']
    if bad and len(bad) <= 60:
        again, _ = sweep(prop, tier, bad, 600, block=1, per_run_timeout=300)
        redo = {r['seed']: r for r in again}
        results = [redo.get(r['seed'], r) if r['status'] == 'harness_error'
                   else r for r in results]
    wall = time.time() - t0

    known  = load_known()
    kmap   = {k['signature']: k for k in known.get('findings', [])
              if k['property'] == prop}

    by_sig = dict()
    for r in results:
        for s in r['sigs']:
            by_sig.setdefault(s, []).append(r)

    n_ok   = sum(1 for r in results if r['status'] == 'ok')
    n_viol = sum(1 for r in results if r['status'] == 'violation')
    n_inc  = sum(1 for r in results if r['status'] == 'inconclusive')
    n_err  = sum(1 for r in results if r['status'] == 'harness_error')

    exit_code = 0
    new_violations = 0
    lines = list()
    # wall clock budget for minimisation, shared by all new signatures
    min_budget = float(os.environ.get('VERIF_MIN_BUDGET_S', 0)) or \
        (150.0 if tier == 'quick' else 900.0)
    t_min0  = time.time()
    n_new   = max(1, len([x for x in by_sig if x not in kmap]))
    for sig in sorted(by_sig):
        rs = by_sig[sig]
        if sig in kmap:
            lines.append('KNOWN-FINDING: property=%s %s [%s] (%d runs, e.g. '
                         'seed %d)' % (prop, kmap[sig]['what'], sig, len(rs),
                                       rs[0]['seed']))
            continue
        new_violations += 1
        first = rs[0]
        share = min_budget / n_new
        sc, sd = minimise(mod, first['seed'], tier, first['scenario'], sig,
                          deadline=min(time.time() + share,
                                       t_min0 + min_budget))
        path, out = write_replay(prop, sig, sd, tier, mod, sc)
        lines.append('VIOLATION property=%s replay=%s' % (prop, path))
        lines.append('  signature=%s runs=%d first_seed=%d' %
                     (sig, len(rs), first['seed']))
        for v in (out.get('violations') or [])[:2]:
            lines.append('  ' + json.dumps(v, default=repr)[:600])
        exit_code = 1

    for e in [r for r in results if r['status'] == 'harness_error'][:3]:
        lines.append('HARNESS-ERROR seed=%s %s' % (e['seed'],
                                                   ' | '.join(e.get('error', []))[:1500]))
    conclusive = n_ok + n_viol
    if exit_code == 0 and (n_err > 0 or conclusive == 0):
        exit_code = 2
    if exit_code == 0 and n_inc > 0.2 * len(results):
        lines.append('HARNESS-ERROR too many inconclusive runs: %d of %d'
                     % (n_inc, len(results)))
        exit_code = 2

    # evidence -----------------------------------------------------------------
    faults, probes = dict(), dict()
    for r in results:
        for k, v in r['faults'].items():
            faults[k] = faults.get(k, 0) + v
        for k, v in r['probes'].items():
            probes[k] = probes.get(k, 0) + v
    nontriv  = {r['digest'] for r in results
                if r['nontrivial'] and r['status'] in ('ok', 'violation')}
    states   = {json.dumps(r['state_fp'], sort_keys=True) for r in results
                if r.get('state_fp') is not None}
    samples  = list()
    for sd in seeds[:2]:
        samples.append({'seed': sd,
                        'scenario': scenario_for(mod, sd, tier)})
    sim_time = sum(r['sim_time'] for r in results)
    steps    = sum(r['steps'] for r in results)
    info     = getattr(mod, 'INFO', {})
    ev = {
        'property_id': prop,
        'tier'       : tier,
        'seed'       : base,
        'level'      : 'exploration',
        'wall_s'     : round(wall, 2),
        'violations' : new_violations,
        'coverage'   : {
            'evaluations'        : len(results),
            'distinct_nontrivial': len(nontriv),
            'rule'               : info.get('rule', ''),
            'samples'            : samples,
            'states'             : len(states),
            'states_measure'     : 'distinct abstract run states: the check\'s '
                                   'own fingerprint where it defines one, '
                                   'else (event kinds with order of magnitude '
                                   'of their counts, fault kinds fired, '
                                   'probes hit)',
            'runs_ok'            : n_ok,
            'runs_violation'     : n_viol,
            'runs_inconclusive'  : n_inc,
            'runs_harness_error' : n_err,
            'runs_skipped_budget': skipped,
            'runs_per_hour'      : int(len(results) / max(wall, 1e-6) * 3600),
            'seeds_first_last'   : [seeds[0], seeds[-1]],
            'simulated_seconds'  : round(sim_time, 1),
            'scheduler_steps'    : steps,
            'faults_fired'       : faults,
            'reach_probes'       : probes,
            'known_findings_hit' : sorted(s for s in by_sig if s in kmap),
            'real_components'    : info.get('real', []),
            'stubbed'            : info.get('stub', []),
            'jobs'               : JOBS,
        },
        'assumptions': [
            'simulated transport: FIFO per publisher->subscriber link, copies '
            'on send (msgpack), reliable queues',
            'threads interleave only at simulator yield points (every sim '
            'primitive call; plus line-level pre-emption where stated)',
            'a clean batch is evidence, not proof',
        ] + info.get('assumptions', []),
    }
    os.makedirs(EVIDENCE, exist_ok=True)
    with open(os.path.join(EVIDENCE, '%s.json' % prop), 'w') as f:
        json.dump(ev, f, indent=1, default=repr)

    for ln in lines:
        print(ln)
    print('%s %s: runs=%d ok=%d violation=%d inconclusive=%d harness_error=%d '
          'skipped=%d distinct_nontrivial=%d wall=%.1fs (%d runs/h) exit=%d'
          % (prop, tier, len(results), n_ok, n_viol, n_inc, n_err, skipped,
             len(nontriv), wall, ev['coverage']['runs_per_hour'], exit_code))
    return exit_code


# ------------------------------------------------------------------------------
#
def selftest_determinism(props, n=12):
    '''same seed twice in-process, and once in a fresh interpreter under a
    different PYTHONHASHSEED: event-log digests must be equal'''
    import subprocess
    bad = 0
    for prop in props:
        mod = load(prop)
        seeds = list(range(7000, 7000 + n))
        a = [run_seed(mod, s, 'quick')['digest'] for s in seeds]
        b = [run_seed(mod, s, 'quick')['digest'] for s in seeds]
        env = dict(os.environ, PYTHONHASHSEED='12345')
        out = subprocess.run([sys.executable, os.path.abspath(__file__),
                              '_digests', prop] + [str(s) for s in seeds],
                             env=env, capture_output=True, text=True,
                             timeout=600)
        c = out.stdout.split()
        ok = (a == b) and (a == c)
        print('determinism %s: in-process %s, fresh interpreter+hashseed %s'
              % (prop, 'same' if a == b else 'DIFFERENT',
                 'same' if a == c else 'DIFFERENT (%s)' % out.stderr[-300:]))
        if not ok:
            bad += 1
            for s, x, y, z in zip(seeds, a, b, c + [''] * n):
                if not (x == y == z):
                    print('   seed %d: %s %s %s' % (s, x[:12], y[:12], z[:12]))
    return 1 if bad else 0


def main(argv):
    if len(argv) >= 2 and argv[1] == '_digests':
        mod = load(argv[2])
        for s in argv[3:]:
            print(run_seed(mod, int(s), 'quick')['digest'])
        return 0
    if len(argv) >= 3 and argv[1] == 'selftest':
        props = argv[3:] or sorted(CHECKS)
        if argv[2] == 'determinism':
            return selftest_determinism(props)
        print('unknown selftest')
        return 2
    prop = argv[1]
    tier = os.environ.get('VERIF_TIER', 'quick')
    nseeds = None
    i = 2
    while i < len(argv):
        if argv[i] == '--tier':
            tier = argv[i + 1]; i += 2
        elif argv[i] == '--replay':
            return replay(prop, argv[i + 1])
        elif argv[i] == '--seeds':
            nseeds = int(argv[i + 1]); i += 2
        elif argv[i] == '--mkreplay':
            # write a minimised replay of the first violation of one seed
            mod  = load(prop)
            seed = int(argv[i + 1])
            out  = run_seed(mod, seed, tier)
            if not out['sigs']:
                print('no violation at seed %d' % seed)
                return 2
            sig = out['sigs'][0]
            sc, sd = minimise(mod, seed, tier, out['scenario'], sig)
            global REPLAYS
            path, _ = write_replay(prop, sig, sd, tier, mod, sc)
            if len(argv) > i + 2:
                import shutil
                shutil.move(path, argv[i + 2])
                path = argv[i + 2]
            print('wrote', path, sig)
            return 0
        elif argv[i] == '--one':
            mod = load(prop)
            out = run_seed(mod, int(argv[i + 1]), tier, keep=True)
            ev  = out.pop('events'); out.pop('trace', None)
            print(json.dumps(out, indent=1, default=repr))
            if '--events' in argv:
                for e in ev:
                    e.pop('obj', None)
                    print(e)
            return 0
        else:
            i += 1
    return check(prop, tier, nseeds)


if __name__ == '__main__':
    sys.exit(main(sys.argv))
