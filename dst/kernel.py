'''
Deterministic simulation kernel.

One OS process hosts one simulated universe at a time.  All simulated threads
are real Python threads, but only one of them ever runs: every thread owns a
semaphore ("baton") and parks on it at each yield point; the kernel loop (in
the OS main thread) picks the next thread to run from a seeded choice source.
Virtual time only advances when nobody is runnable (discrete event time).

Nothing in here reads a real clock or draws from a global PRNG.
'''

import sys
import random
import hashlib
import threading
import traceback
import _thread

# the current universe (one per OS process at any time)
CUR = None


class SimKilled(BaseException):
    '''raised inside sim threads at teardown'''


class HarnessError(Exception):
    '''the harness (not the code under test) is broken'''


class Divergence(HarnessError):
    '''a replayed decision trace does not match the execution'''


NEW, READY, BLOCKED, DONE = 'NEW', 'READY', 'BLOCKED', 'DONE'


# ------------------------------------------------------------------------------
#
class Choices(object):
    '''
    The single source of nondeterminism.  Two streams derive from the one seed:
    `gen` (universe configuration and workload) and `sched` (every scheduling,
    delay and fault decision at run time).  The `sched` stream is recorded as
    the decision trace; on replay the recorded values are fed back.
    '''

    def __init__(self, seed, trace=None):

        self.seed    = seed
        self.gen     = random.Random('%s:gen'   % seed)
        self._sched  = random.Random('%s:sched' % seed)
        self.trace   = list()       # recorded [n, value]
        self._replay = trace        # list of [n, value] or None
        self._rpos   = 0
        self.diverged = False

    def choice(self, n, label=None):
        # label is for debugging only; it never influences the draw
        if n <= 1:
            return 0
        if self._replay is not None:
            if self._rpos < len(self._replay):
                rn, rv = self._replay[self._rpos]
                self._rpos += 1
                if rn != n:
                    self.diverged = True
                    rv = rv % n
                v = rv
            else:
                # trace exhausted: continue deterministically
                v = 0
        else:
            v = self._sched.randrange(n)
        self.trace.append([n, v])
        return v

    def coin(self, p, label=None):
        '''true with probability p (resolution 1/1000)'''
        if p <= 0:
            return False
        if p >= 1:
            return True
        return self.choice(1000, label) < int(p * 1000)

    def uniform(self, lo, hi, label=None, steps=100):
        return lo + (hi - lo) * self.choice(steps + 1, label) / float(steps)


# ------------------------------------------------------------------------------
#
class SimProcess(object):
    '''a simulated OS process: identity and per-process interpreter state'''

    def __init__(self, sim, name, parent=None):
        self.sim     = sim
        self.name    = name
        self.parent  = parent
        self.pid     = 'pid.%s' % name          # never an int (see DESIGN 2.11)
        self.alive   = True
        self.exitcode = None
        self.threads = list()
        # per process interpreter state, swapped by the kernel on switches
        self.ctx     = dict()

    def __deepcopy__(self, memo):
        return self

    def __repr__(self):
        return '<SimProcess %s>' % self.name


# ------------------------------------------------------------------------------
#
class SimThread(object):

    def __init__(self, sim, fn, name, proc, daemon=True):

        self.sim      = sim
        self.fn       = fn
        self.name     = name
        self.proc     = proc
        self.daemon   = daemon
        self.state    = NEW
        self.pred     = None
        self.deadline = None
        self.what     = None
        self.go       = threading.Semaphore(0)
        self.killed   = False
        self.nkill    = 0
        self.error    = None
        self.idx      = None
        self.tracer   = None
        self.os_thread = None
        self.group    = None      # slow-node grouping (component name)
        self.frozen   = False     # never scheduled (irrelevant pollers)

    def __deepcopy__(self, memo):
        return self

    def __repr__(self):
        return '<SimThread %s %s>' % (self.name, self.state)


# ------------------------------------------------------------------------------
#
class Sim(object):

    def __init__(self, seed, trace=None, yield_prob=1.0, t0=1000.0):

        self.seed      = seed
        self.ch        = Choices(seed, trace)
        self.slow      = dict()   # thread name prefix -> (prob, max dt)
        self.now       = t0
        self.t0        = t0
        self.threads   = list()
        self.procs     = list()
        self.current   = None
        self.back      = threading.Semaphore(0)
        self.steps     = 0
        self.events    = list()     # event log (seq = index)
        self.listeners = list()     # step-invariant oracles: fn(event)
        self.thread_errors = list()
        self.tearing_down  = False
        self.yield_prob = yield_prob
        self.faults    = dict()     # kind -> fire count
        self.probes    = dict()     # name -> count
        self.violations = list()    # recorded by oracles
        self.stalled   = dict()     # group -> until (slow node fault)
        self.preempt_files = ()
        self.preempt_prob  = 0.0
        self._digest   = hashlib.sha256()
        self._names    = dict()
        self.root_proc = self.new_process('root')
        self.data      = dict()     # world scratch space

    # --------------------------------------------------------------------------
    # bookkeeping
    #
    def uniq(self, prefix):
        n = self._names.get(prefix, 0)
        self._names[prefix] = n + 1
        return '%s.%d' % (prefix, n)

    def fault(self, kind, n=1):
        self.faults[kind] = self.faults.get(kind, 0) + n

    def probe(self, name, n=1):
        self.probes[name] = self.probes.get(name, 0) + n

    def log(self, kind, **kw):
        '''append to the event log; never draws, never reads a real clock'''
        ev = {'seq': len(self.events), 't': round(self.now - self.t0, 6),
              'kind': kind}
        if self.current is not None:
            ev['thr'] = self.current.name
        ev.update(kw)
        self.events.append(ev)
        self._digest.update(repr(sorted(
            (k, v) for k, v in ev.items() if k != 'obj')).encode())
        for fn in self.listeners:
            fn(ev)
        return ev

    def digest(self):
        return self._digest.hexdigest()

    def violation(self, prop, clause, site, detail=None):
        v = {'property': prop, 'clause': clause, 'site': site,
             'detail': detail, 'seq': len(self.events),
             't': round(self.now - self.t0, 6)}
        self.violations.append(v)
        self.log('violation', prop=prop, clause=clause, site=site)
        return v

    # --------------------------------------------------------------------------
    # processes and threads
    #
    def new_process(self, name, parent=None):
        p = SimProcess(self, self.uniq(name) if parent else name, parent)
        self.procs.append(p)
        return p

    def cur_proc(self):
        if self.current is not None:
            return self.current.proc
        return self.root_proc

    def spawn(self, fn, name, proc=None, daemon=True, start=True, group=None):
        if proc is None:
            proc = self.cur_proc()
        t = SimThread(self, fn, self.uniq(name), proc, daemon)
        t.idx = len(self.threads)
        t.group = group if group else (self.current.group
                                       if self.current is not None else None)
        self.threads.append(t)
        proc.threads.append(t)
        if start:
            self.start_thread(t)
        return t

    def start_thread(self, t):
        assert t.state == NEW
        t.state = READY
        ot = threading.Thread(target=self._thread_main, args=[t],
                              name='sim:' + t.name, daemon=True)
        t.os_thread = ot
        ot.start()

    def _thread_main(self, t):
        t.go.acquire()
        try:
            if t.killed:
                return
            if self.preempt_files:
                sys.settrace(self._make_tracer(t))
            t.fn()
        except SimKilled:
            pass
        except SystemExit as e:
            self.log('thread_exit', name=t.name, code=repr(e.code))
        except BaseException as e:                        # noqa
            t.error = (repr(e), traceback.format_exc())
            if not self.tearing_down:
                self.thread_errors.append((t.name,) + t.error)
                self.log('thread_error', name=t.name, err=repr(e))
        finally:
            sys.settrace(None)
            t.state = DONE
            self.back.release()

    # --------------------------------------------------------------------------
    # line level pre-emption
    #
    def _make_tracer(self, t):

        files = self.preempt_files
        sim   = self

        def local(frame, event, arg):
            if event == 'line' and sim.preempt_prob and not sim.tearing_down \
                    and sim.current is t:
                if sim.ch.coin(sim.preempt_prob):
                    sim.probe('preempt')
                    sim.park(READY, what='preempt')
            return local

        def glob(frame, event, arg):
            if event == 'call' and frame.f_code.co_filename.endswith(files):
                return local
            return None

        return glob

    # --------------------------------------------------------------------------
    # yield points (called from sim threads)
    #
    def in_sim_thread(self):
        t = self.current
        return t is not None and t.os_thread is threading.current_thread()

    def park(self, state, pred=None, deadline=None, what=None):
        '''give the baton back to the kernel'''
        t = self.current
        if t is None or t.os_thread is not threading.current_thread():
            raise HarnessError('park() outside of a sim thread (%s)' % what)
        if t.killed:
            self._killed(t)
        t.state    = state
        t.pred     = pred
        t.deadline = deadline
        t.what     = what
        self.back.release()
        t.go.acquire()
        if t.killed:
            self._killed(t)

    def _killed(self, t):
        t.nkill += 1
        if t.nkill > 50:
            # code under test swallows the kill (bare except in a loop):
            # leave this OS thread parked for good.
            t.state = DONE
            self.back.release()
            while True:
                t.go.acquire()
        raise SimKilled()

    def yield_(self, what=None):
        '''optional pre-emption point; with `stall_prob` the thread is
        descheduled for a short virtual time (slow / pre-empted thread) so
        that timers of other threads fire inside its critical sections'''
        if not self.in_sim_thread():
            return
        for pfx, (sp_, smax) in self.slow.items():
            # slow threads (fault kind `slow`): named threads which are
            # descheduled more often and for longer than the others
            if self.current.name.startswith(pfx) and self.ch.coin(sp_):
                self.fault('slow')
                dt = self.ch.uniform(0.0, smax, steps=12)
                self.park(BLOCKED, pred=None, deadline=self.now + dt,
                          what='slow')
                return
        if self.stall_prob and self.current.group != 'driver' and \
                self.ch.coin(self.stall_prob):
            self.fault('stall')
            dt = self.ch.uniform(0.0, self.stall_max, steps=12)
            self.park(BLOCKED, pred=None, deadline=self.now + dt,
                      what='stall')
            return
        if self.yield_prob >= 1.0 or self.ch.coin(self.yield_prob):
            self.park(READY, what=what)

    def block(self, pred, timeout=None, what=None):
        '''block until pred() holds (-> True) or timeout expired (-> False)'''
        if not self.in_sim_thread():
            if pred():
                return True
            raise HarnessError('blocking call outside sim thread: %s' % what)
        if what == 'lock' and self.stall_prob and \
                self.current.group != 'driver' and \
                self.ch.coin(self.stall_prob):
            # a thread descheduled right before it takes a lock (between a
            # check and the critical section which relies on it)
            self.fault('stall')
            dt = self.ch.uniform(0.0, self.stall_max, steps=12)
            self.park(BLOCKED, pred=None, deadline=self.now + dt,
                      what='stall')
        deadline = None if timeout is None else self.now + max(0.0, timeout)
        # always give others a chance first
        first = True
        while True:
            if not first and pred():
                return True
            if not first and deadline is not None and self.now >= deadline:
                return pred()
            first = False
            self.park(BLOCKED, pred=pred, deadline=deadline, what=what)

    def sleep(self, dt):
        if not self.in_sim_thread():
            return
        if dt is None or dt < 0:
            dt = 0
        deadline = self.now + dt
        self.park(BLOCKED, pred=None, deadline=deadline, what='sleep')

    # --------------------------------------------------------------------------
    # the scheduler loop (OS main thread)
    #
    def _runnable(self, t):
        if t.frozen and t.what == 'sleep':
            # only ever frozen while idle (never while holding a lock)
            return False
        if t.state == READY:
            pass
        elif t.state == BLOCKED:
            ok = False
            if t.deadline is not None and t.deadline <= self.now:
                ok = True
            elif t.pred is not None and t.pred():
                ok = True
            if not ok:
                return False
        else:
            return False
        if self.stalled and t.group in self.stalled:
            if self.stalled[t.group] > self.now:
                return False
            del self.stalled[t.group]
        return True

    def run(self, stop=None, max_steps=100000, until=None):
        '''
        run until `stop()` holds, nothing can ever run again ("quiescent"),
        virtual time `until` is reached, or the step cap is hit.
        returns one of 'stopped', 'quiescent', 'until', 'cap'
        '''
        global CUR
        assert CUR is self
        while True:
            if stop is not None and stop():
                return 'stopped'
            if self.steps >= max_steps:
                return 'cap'
            runnable = [t for t in self.threads if self._runnable(t)]
            if not runnable:
                dls = [t.deadline for t in self.threads
                       if t.state == BLOCKED and t.deadline is not None
                       and not (t.frozen and t.what == 'sleep')]
                dls += [u for g, u in self.stalled.items()]
                if not dls:
                    return 'quiescent'
                dl = min(dls)
                if until is not None and dl > until:
                    self.now = until
                    return 'until'
                if dl > self.now:
                    self.now = dl
                continue
            if until is not None and self.now >= until:
                return 'until'
            # spin breaker: code which polls the clock in a busy loop (without
            # sleeping) is always runnable; in reality real time passes while
            # it spins.  If nothing observable happened for SPIN_LIMIT steps
            # at the same virtual instant, let time pass to the next deadline.
            if self.now == self._spin_now and \
                    len(self.events) == self._spin_ev:
                # (steps of threads which were merely pre-empted in the middle
                # of a computation do not count as polling)
                if any(t.what != 'preempt' for t in runnable):
                    self._spin_cnt += 1
                if self._spin_cnt > self.SPIN_LIMIT:
                    dls = [t.deadline for t in self.threads
                           if t.state == BLOCKED and t.deadline is not None
                           and t.deadline > self.now
                           and not (t.frozen and t.what == 'sleep')]
                    self._spin_cnt = 0
                    if dls:
                        self.probe('spin_break')
                        self.now = min(dls)
                        continue
            else:
                self._spin_now = self.now
                self._spin_ev  = len(self.events)
                self._spin_cnt = 0
            if len(runnable) == 1:
                t = runnable[0]
            else:
                t = runnable[self.ch.choice(len(runnable), 'sched')]
            self.steps += 1
            self._switch(t)

    def _switch(self, t):
        prev_proc = getattr(self, '_last_proc', None)
        if prev_proc is not t.proc:
            self._ctx_switch(prev_proc, t.proc)
            self._last_proc = t.proc
        self.current = t
        t.go.release()
        self.back.acquire()
        self.current = None

    # per process interpreter context (stdout, stderr, environ); worlds that
    # need it install `ctx_hooks` = list of (save(proc), restore(proc))
    ctx_hooks = ()

    SPIN_LIMIT = 400
    stall_prob = 0.0
    stall_max  = 0.06
    _spin_now  = None
    _spin_ev   = -1
    _spin_cnt  = 0

    def _ctx_switch(self, old, new):
        for save, restore in self.ctx_hooks:
            if old is not None:
                save(old)
            restore(new)

    # --------------------------------------------------------------------------
    #
    def kill_threads(self, threads):
        '''terminate the given threads at their next (= current) yield point.
        Called from a sim thread (e.g. Process.terminate) the victims are only
        marked and made runnable: they die when the kernel schedules them
        next.  Called from the kernel thread (teardown) they are driven to
        their end right away.'''
        nested = self.in_sim_thread()
        for t in threads:
            if t.state in (DONE,):
                continue
            if t is self.current:
                continue
            t.killed = True
            if t.state == NEW:
                t.state = DONE
                continue
            if nested:
                t.state    = READY
                t.pred     = None
                t.deadline = None
                t.frozen   = False
                continue
            # run it until it is gone
            guard = 0
            while t.state != DONE and guard < 200:
                guard += 1
                self.current = t
                t.go.release()
                self.back.acquire()
            self.current = None

    def freeze(self, substr):
        '''never schedule threads whose name contains `substr`'''
        n = 0
        for t in self.threads:
            if substr in t.name:
                t.frozen = True
                n += 1
        return n

    def teardown(self):
        self.tearing_down = True
        for t in self.threads:
            t.frozen = False
        self.kill_threads(list(self.threads))
        for save, restore in self.ctx_hooks:
            restore(self.root_proc)


# ------------------------------------------------------------------------------
#
def new_sim(seed, **kw):
    global CUR
    CUR = Sim(seed, **kw)
    return CUR


def cur():
    if CUR is None:
        raise HarnessError('no simulation active')
    return CUR

