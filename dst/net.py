'''
Simulated transport: registry, pubsub and queue bridges with the endpoint
classes radical.pilot uses from `radical.utils.zmq`, and the `ru` proxy through
which patched radical.pilot modules see them.

Fidelity rules (DESIGN 2.3):
  * every put/publish does a msgpack round trip with ru's own (de)serialiser:
    receivers get copies, non-serialisable content raises at the sender;
  * one publisher -> one subscriber is FIFO, different links are unordered
    (seeded per-delivery delay);
  * queues are reliable FIFO per (channel, qname), delivered in bulks.
'''

import re
import copy
import types

import radical.utils as _ru

from . import kernel as K
from . import prims  as P


def _sim():
    return K.cur()


_HEX = re.compile(r'0x[0-9a-fA-F]+')


def clean(s):
    s = str(s)
    sim = K.CUR
    tmp = sim.data.get('tmp') if sim is not None else None
    if tmp:
        # (first: the random part of the directory name may look like an
        # address - `...0x3f` - to the next substitution)
        s = s.replace(tmp, '<tmp>')
    s = _HEX.sub('0x', s)
    return s[:300]


# ------------------------------------------------------------------------------
# null logger / profiler / reporter
#
class NullLog(object):

    _debug_level = 0
    enabled      = False
    name         = 'null'

    def __init__(self, name='null'):
        self.name = name

    def __deepcopy__(self, memo):
        return self

    def exception(self, *a, **k):
        import sys
        sim = K.CUR
        if sim is not None and not sim.tearing_down:
            e = sys.exc_info()[1]
            msg = a[0] if a else ''
            try:
                if len(a) > 1:
                    msg = msg % a[1:]
            except Exception:
                pass
            sim.log('log_exception', who=self.name, msg=clean(msg),
                    exc=clean(repr(e)))

    def error(self, *a, **k):
        sim = K.CUR
        if sim is not None and not sim.tearing_down:
            msg = a[0] if a else ''
            try:
                if len(a) > 1:
                    msg = msg % a[1:]
            except Exception:
                pass
            sim.log('log_error', who=self.name, msg=clean(msg))

    def _noop(self, *a, **k):
        # a real logger writes to a file under a lock: a blocking point.  A
        # knob of the world (`sim.data['log_yield']`, off by default) turns
        # every log call into a pre-emption point of the simulation
        sim = K.CUR
        if sim is not None and sim.data.get('log_yield') and \
                not sim.tearing_down and sim.in_sim_thread():
            sim.yield_('log')
        return None

    def __getattr__(self, k):
        if k.startswith('__'):
            raise AttributeError(k)
        return self._noop


class NullProf(object):

    enabled = False

    def __init__(self, name='null', **kw):
        self.name = name

    def __deepcopy__(self, memo):
        return self

    def prof(self, event=None, **kw):
        # a few profile events double as cheap reach probes
        pass

    def _noop(self, *a, **k):
        return None

    def __getattr__(self, k):
        if k.startswith('__'):
            raise AttributeError(k)
        return self._noop


# ------------------------------------------------------------------------------
#
def summarize(msg):
    '''compact, deterministic description of a message for the event log'''
    try:
        if isinstance(msg, dict) and 'uid' in msg and 'cmd' not in msg:
            # a single thing published as such (e.g. an unschedule request)
            if isinstance(msg.get('val'), dict) and 'mid' in msg['val']:
                return {'things': [(msg.get('uid'),
                                    'mid:%s' % msg['val']['mid'])]}
            return {'things': [(msg.get('uid'), msg.get('state'))]}
        if isinstance(msg, dict):
            cmd = msg.get('cmd')
            arg = msg.get('arg')
            out = {'cmd': cmd}
            if 'fwd' in msg:
                out['fwd'] = msg.get('fwd')
            if 'origin' in msg:
                out['origin'] = msg.get('origin')
            if 'mid' in msg:
                out['mid'] = msg.get('mid')
            if isinstance(arg, list):
                out['things'] = [(t.get('uid'), t.get('state'))
                                 for t in arg if isinstance(t, dict)]
                # (only when a thing's kind is not what its uid suggests)
                if any(isinstance(t, dict) and t.get('type') and
                       isinstance(t.get('uid'), str) and
                       not t['uid'].startswith(t['type'])
                       for t in arg):
                    out['ttypes'] = [t.get('type') for t in arg
                                     if isinstance(t, dict)]
            elif isinstance(arg, dict):
                if 'uids' in arg:
                    out['uids'] = list(_ru.as_list(arg['uids']))
                elif 'uid' in arg:
                    out['uids'] = [arg['uid']]
            if '_type' in msg:
                out['type'] = msg['_type']
            return out
        if isinstance(msg, list):
            return {'things': [(t.get('uid'), t.get('state'))
                               for t in msg if isinstance(t, dict)]}
    except Exception:
        pass
    return {'raw': clean(repr(msg))[:80]}


def roundtrip(msg):
    return _ru.as_string(_ru.from_msgpack(_ru.to_msgpack(msg)))


# ------------------------------------------------------------------------------
#
class Net(object):
    '''all bridges and registries of one universe'''

    def __init__(self, sim):
        self.sim      = sim
        self.pubsubs  = dict()     # url_base -> PubSubBridge
        self.queues   = dict()     # url_base -> QueueBridge
        self.regs     = dict()     # url -> RegistryData
        self.inflight = 0
        # link parameters, set by worlds
        self.delay_max   = 0.0     # max per-delivery latency
        self.link_faults = dict()  # channel name -> dict(kind -> prob)
        self.bulk_max    = 1024
        self.partitions  = dict()  # side -> virtual time of heal

    def __deepcopy__(self, memo):
        return self

    def new_registry(self, side):
        url = 'sim://%s/registry' % side
        self.regs[url] = dict()
        return url

    def new_pubsub(self, side, channel):
        base = 'sim://%s/%s' % (side, channel)
        b = PubSubBridge(self, side, channel, base)
        self.pubsubs[base] = b
        return b

    def new_queue(self, side, channel):
        base = 'sim://%s/%s' % (side, channel)
        b = QueueBridge(self, side, channel, base)
        self.queues[base] = b
        return b

    def find(self, url):
        base = str(url).rsplit('#', 1)[0]
        if base in self.pubsubs:
            return self.pubsubs[base]
        if base in self.queues:
            return self.queues[base]
        raise K.HarnessError('no sim bridge for url %r' % (url,))

    def idle(self, queues=True):
        '''no message anywhere in flight'''
        if self.inflight:
            return False
        if not queues:
            return True
        for q in self.queues.values():
            for buf in q.bufs.values():
                if buf:
                    return False
        return True


def net():
    sim = _sim()
    n = sim.data.get('net')
    if n is None:
        n = sim.data['net'] = Net(sim)
    return n


# ------------------------------------------------------------------------------
#
class PubSubBridge(object):

    def __init__(self, net, side, channel, base):
        self.net      = net
        self.side     = side
        self.channel  = channel
        self.base     = base
        self.addr_pub = base + '#pub'
        self.addr_sub = base + '#sub'
        self.subs     = list()
        self.npub     = 0

    def __deepcopy__(self, memo):
        return self

    def cfg(self):
        return {'addr_pub': self.addr_pub, 'addr_sub': self.addr_sub}


class QueueBridge(object):

    def __init__(self, net, side, channel, base):
        self.net      = net
        self.side     = side
        self.channel  = channel
        self.base     = base
        self.addr_put = base + '#put'
        self.addr_get = base + '#get'
        self.bufs     = dict()      # qname -> [items]

    def __deepcopy__(self, memo):
        return self

    def cfg(self):
        return {'addr_put': self.addr_put, 'addr_get': self.addr_get}


# ------------------------------------------------------------------------------
#
def _settle():
    '''the real end points sleep 10 ms after connecting (`time.sleep(0.01)` in
    the constructors of ru.zmq.Publisher / Subscriber / Putter): other threads
    run while a component is still wiring itself up.  A knob of the world
    (`sim.data['settle']`, off by default; C16 switches it on)'''
    sim = _sim()
    if sim is not None and sim.in_sim_thread() and sim.data.get('settle'):
        sim.sleep(sim.data['settle'])


class Publisher(object):

    def __init__(self, channel, url=None, log=None, prof=None, path=None):
        self._channel = channel
        self._url     = url
        self._bridge  = net().find(url)
        sim = _sim()
        self._owner   = sim.current.group if sim.current else None
        self._uid     = sim.uniq('%s.pub' % channel)
        self._last    = dict()      # subscriber -> last deliver_at (FIFO)
        _settle()

    def __deepcopy__(self, memo):
        return self

    @property
    def channel(self):
        return self._channel

    @property
    def name(self):
        return self._uid

    uid = name

    def put(self, topic, msg):
        sim = _sim()
        n   = self._bridge.net
        bmsg  = _ru.to_msgpack(msg)           # raises like the real one
        topic = str(topic).replace(' ', '_')
        sim.log('pub', chan=self._bridge.channel, side=self._bridge.side,
                who=self._owner, m=summarize(msg))
        self._bridge.npub += 1
        faults = n.link_faults.get(self._bridge.channel)
        for sub in list(self._bridge.subs):
            if not sub._wants(topic):
                continue
            delay = 0.0
            if n.delay_max > 0:
                delay = sim.ch.uniform(0.0, n.delay_max, 'delay', steps=20)
                if delay:
                    sim.fault('delay')
            at = max(sim.now + delay, self._last.get(sub, 0.0))
            if n.partitions and self._bridge.side == 'proxy':
                # a partitioned side: traffic between it and the proxy is
                # held (not lost) until the partition heals
                for who in (self._owner, sub._owner):
                    side = str(who or '').split(':')[-1]
                    until = n.partitions.get(side)
                    if until and until > sim.now:
                        at = max(at, until)
                        sim.fault('partition_hold')
            copies = 1
            if faults and sub._faulty:
                if faults.get('drop') and sub._droppable(msg) \
                        and sim.ch.coin(faults['drop'], 'drop'):
                    sim.fault('drop')
                    sim.log('fault_drop', chan=self._bridge.channel,
                            m=summarize(msg))
                    continue
                if faults.get('dup') and sim.ch.coin(faults['dup'], 'dup'):
                    sim.fault('dup')
                    copies = 2
                if faults.get('reorder') and \
                        sim.ch.coin(faults['reorder'], 'reorder'):
                    # breaks the FIFO rule on this link for this message
                    sim.fault('reorder')
                    at = sim.now + sim.ch.uniform(0.0, faults.get(
                        'reorder_window', 0.5), 'reorder_d', steps=20)
                    self._last[sub] = max(self._last.get(sub, 0.0), sim.now)
                else:
                    self._last[sub] = at
            else:
                self._last[sub] = at
            for c in range(copies):
                sub._enqueue(at + c * 0.001, topic, bmsg, self._owner)
        sim.yield_('pub.put')


# ------------------------------------------------------------------------------
#
class Subscriber(object):

    def __init__(self, channel, url=None, topic=None, cb=None,
                 log=None, prof=None, path=None):
        sim = _sim()
        self._channel   = channel
        self._url       = url
        self._bridge    = net().find(url)
        self._topics    = list()
        self._callbacks = list()
        self._inbox     = list()       # [at, seq, topic, bmsg]
        self._seq       = 0
        self._thread    = None
        self._term      = False
        self._owner     = sim.current.group if sim.current else None
        self._proc      = sim.cur_proc()
        self._uid       = sim.uniq('%s.sub' % channel)
        self._faulty    = True
        self._interactive = True
        self._bridge.subs.append(self)
        _settle()
        for t in _ru.as_list(topic):
            self.subscribe(t, cb)

    def __deepcopy__(self, memo):
        return self

    @property
    def channel(self):
        return self._channel

    @property
    def name(self):
        return self._uid

    uid = name

    def _wants(self, topic):
        if self._term or not self._proc.alive:
            return False
        for t in self._topics:
            if topic.startswith(t):
                return True
        return False

    def _droppable(self, msg):
        # only non-final state notifications may be dropped (DESIGN 2.5)
        try:
            from radical.pilot import states as rps
            for t in msg.get('arg', []):
                if t.get('state') in rps.FINAL:
                    return False
            return msg.get('cmd') == 'update'
        except Exception:
            return False

    def _enqueue(self, at, topic, bmsg, src=None):
        self._seq += 1
        self._inbox.append([at, self._seq, topic, bmsg, src])
        self._inbox.sort(key=lambda x: (x[0], x[1]))
        self._bridge.net.inflight += 1

    def _due(self):
        return self._term or \
            (self._inbox and self._inbox[0][0] <= _sim().now)

    def _next_at(self):
        return self._inbox[0][0] if self._inbox else None

    def subscribe(self, topic, cb=None, lock=None):
        topic = str(topic).replace(' ', '_')
        if cb:
            self._interactive = False
            self._callbacks.append([cb, lock])
            self._start_listener()
        if topic not in self._topics:
            self._topics.append(topic)

    def unsubscribe(self, cb):
        for _cb, _lock in list(self._callbacks):
            if cb == _cb:
                self._callbacks.remove([_cb, _lock])
                break
        if not self._callbacks:
            self.stop()

    def stop(self):
        self._term = True
        # whatever was queued for this endpoint is gone with it
        self._bridge.net.inflight -= len(self._inbox)
        self._inbox = list()

    def _start_listener(self):
        if self._thread:
            return
        sim = _sim()
        self._thread = sim.spawn(self._listener,
                                 '%s.sub.%s' % (self._owner or 'x',
                                                self._channel))

    def _wait_msg(self, timeout):
        sim = _sim()
        end = None if timeout is None else sim.now + timeout
        while True:
            if self._term:
                return None
            if self._inbox and self._inbox[0][0] <= sim.now:
                item = self._inbox.pop(0)
                self._bridge.net.inflight -= 1
                return item
            nxt = self._next_at()
            to  = None
            if nxt is not None:
                to = max(0.0, nxt - sim.now)
            if end is not None:
                rem = end - sim.now
                if rem <= 0:
                    return None
                to = rem if to is None else min(to, rem)
            sim.block(self._due, to, what='sub.wait')

    def _listener(self):
        sim = _sim()
        while not self._term:
            item = self._wait_msg(None)
            if item is None:
                continue
            at, seq, topic, bmsg, src = item
            msg = _ru.as_string(_ru.from_msgpack(bmsg))
            sim.log('deliver', chan=self._bridge.channel,
                    side=self._bridge.side, to=self._owner, src=src,
                    m=summarize(msg))
            for cb, lock in list(self._callbacks):
                try:
                    if lock:
                        with lock:
                            cb(topic, msg)
                    else:
                        cb(topic, msg)
                except SystemExit:
                    self._term = True
                    break
                except K.SimKilled:
                    raise
                except Exception as e:
                    sim.log('cb_error', chan=self._bridge.channel,
                            to=self._owner, cb=getattr(cb, '__name__', '?'),
                            exc=clean(repr(e)))

    def get_nowait(self, timeout=None):
        # timeout in ms
        if not self._interactive:
            raise RuntimeError('invalid get_nowait(): callbacks registered')
        to = None if timeout is None else timeout / 1000.0
        item = self._wait_msg(to)
        if item is None:
            return [None, None]
        at, seq, topic, bmsg, src = item
        return [topic, _ru.as_string(_ru.from_msgpack(bmsg))]

    def get(self):
        item = self._wait_msg(None)
        if item is None:
            return [None, None]
        at, seq, topic, bmsg, src = item
        return [topic, _ru.as_string(_ru.from_msgpack(bmsg))]


# ------------------------------------------------------------------------------
#
class Putter(object):

    def __init__(self, channel, url=None, log=None, prof=None, path=None):
        sim = _sim()
        self._channel = channel
        self._url     = url
        self._bridge  = net().find(url)
        self._owner   = sim.current.group if sim.current else None
        self._uid     = sim.uniq('%s.put' % channel)

    def __deepcopy__(self, memo):
        return self

    def __str__(self):
        return 'Putter(%s @ %s)' % (self._channel, self._url)

    @property
    def channel(self):
        return self._channel

    @property
    def name(self):
        return self._uid

    uid = name

    def put(self, msgs, qname=None):
        sim  = _sim()
        msgs = _ru.as_list(msgs)
        if not qname:
            qname = 'default'
        data = _ru.as_string(_ru.from_msgpack(_ru.to_msgpack(msgs)))
        sim.log('q_put', chan=self._bridge.channel, side=self._bridge.side,
                who=self._owner, qname=qname, m=summarize(data), obj=data)
        self._bridge.bufs.setdefault(qname, []).extend(data)
        sim.yield_('q.put')


class Getter(object):

    def __init__(self, channel, url=None, cb=None, log=None, prof=None,
                 path=None):
        sim = _sim()
        self._channel = channel
        self._url     = url
        self._bridge  = net().find(url)
        self._owner   = sim.current.group if sim.current else None
        self._uid     = sim.uniq('%s.get' % channel)
        self._term    = False
        self._thread  = None
        self._cbs     = list()
        self._interactive = True
        if cb:
            self.subscribe(cb)

    def __deepcopy__(self, memo):
        return self

    def __str__(self):
        return 'Getter(%s @ %s)' % (self._channel, self._url)

    @property
    def channel(self):
        return self._channel

    @property
    def name(self):
        return self._uid

    uid = name

    def _take(self, qname):
        sim = _sim()
        buf = self._bridge.bufs.get(qname)
        if not buf:
            return None
        nmax = min(len(buf), self._bridge.net.bulk_max)
        n = nmax
        if nmax > 1 and sim.ch.coin(0.3, 'bulk'):
            n = 1 + sim.ch.choice(nmax, 'bulk_n')
        out = buf[:n]
        del buf[:n]
        sim.log('q_get', chan=self._bridge.channel, side=self._bridge.side,
                who=self._owner, qname=qname, m=summarize(out))
        return out

    def get_nowait(self, qname=None, timeout=None):     # timeout in ms
        if not self._interactive:
            raise RuntimeError('invalid get(): callbacks are registered')
        if timeout is None and isinstance(qname, int):
            timeout, qname = qname, None
        if not qname:
            qname = 'default'
        to = None if timeout is None else timeout / 1000.0
        ok = _sim().block(lambda: bool(self._bridge.bufs.get(qname)) or
                          self._term, to, what='q.get')
        if not ok or self._term:
            return None
        return self._take(qname)

    def get(self, qname=None):
        if not qname:
            qname = 'default'
        _sim().block(lambda: bool(self._bridge.bufs.get(qname)) or self._term,
                     None, what='q.get')
        if self._term:
            return None
        return self._take(qname)

    def subscribe(self, cb, lock=None):
        if self._cbs:
            raise RuntimeError('multiple callbacks not supported')
        self._cbs.append([cb, lock])
        self._interactive = False
        if not self._thread:
            self._thread = _sim().spawn(self._listener, '%s.get.%s' % (
                self._owner or 'x', self._channel))

    def unsubscribe(self, cb):
        self._cbs = [c for c in self._cbs if c[0] != cb]
        if not self._cbs:
            self.stop()

    def stop(self):
        self._term = True

    def _listener(self, qname='default'):
        sim = _sim()
        sim.sleep(0.01)       # as ru.zmq.Getter._listener does
        while not self._term:
            sim.block(lambda: bool(self._bridge.bufs.get(qname)) or self._term,
                      None, what='q.listen')
            if self._term:
                break
            msgs = self._take(qname)
            if not msgs:
                continue
            for cb, lock in list(self._cbs):
                try:
                    if lock:
                        with lock:
                            cb(msgs)
                    else:
                        cb(msgs)
                except K.SimKilled:
                    raise
                except Exception as e:
                    # the real listener thread dies here
                    sim.log('getter_died', chan=self._bridge.channel,
                            to=self._owner, exc=clean(repr(e)))
                    return


# ------------------------------------------------------------------------------
# bridges created by the code under test (raptor master)
#
class BridgeQueue(object):
    '''ru.zmq.Queue'''

    def __init__(self, channel, cfg=None, log=None, **kw):
        sim = _sim()
        side = sim.current.group if sim.current else 'x'
        self._b = net().new_queue(side, sim.uniq(channel))
        self.channel = channel

    def __deepcopy__(self, memo):
        return self

    def start(self):
        pass

    def stop(self):
        pass

    def wait(self):
        pass

    @property
    def addr_put(self):
        return self._b.addr_put

    @property
    def addr_get(self):
        return self._b.addr_get


class BridgePubSub(object):
    '''ru.zmq.PubSub'''

    def __init__(self, channel, cfg=None, log=None, **kw):
        sim = _sim()
        side = sim.current.group if sim.current else 'x'
        self._b = net().new_pubsub(side, sim.uniq(channel))
        self.channel = channel

    def __deepcopy__(self, memo):
        return self

    def start(self):
        pass

    def stop(self):
        pass

    @property
    def addr_pub(self):
        return self._b.addr_pub

    @property
    def addr_sub(self):
        return self._b.addr_sub


# ------------------------------------------------------------------------------
#
class RegistryClient(object):
    '''dict-like hierarchical registry; values are copied (as over the wire)'''

    def __init__(self, url, pwd=None):
        self._url  = str(url)
        self._pwd  = pwd
        regs = net().regs
        if self._url not in regs:
            raise K.HarnessError('unknown registry %s' % url)
        self._data = regs[self._url]

    def __deepcopy__(self, memo):
        return self

    def _copy(self, v):
        try:
            return roundtrip(v)
        except Exception:
            return copy.deepcopy(v)

    def get(self, key, default=None):
        if self._pwd:
            key = self._pwd + '.' + key
        _sim().yield_('reg.get')
        this  = self._data
        elems = key.split('.')
        for elem in elems[:-1]:
            this = this.get(elem, {})
            if not this:
                break
        if this is None:
            this = dict()
        val = this.get(elems[-1])
        if val is None:
            return default
        return self._copy(val)

    def put(self, key, val):
        if self._pwd:
            key = self._pwd + '.' + key
        val   = self._copy(val)
        this  = self._data
        elems = key.split('.')
        for elem in elems[:-1]:
            if elem not in this or this[elem] is None:
                this[elem] = dict()
            this = this[elem]
        this[elems[-1]] = val
        _sim().yield_('reg.put')

    def __getitem__(self, key):
        return self.get(key)

    def __setitem__(self, key, val):
        return self.put(key, val)

    def __delitem__(self, key):
        if self._pwd:
            key = self._pwd + '.' + key
        this  = self._data
        elems = key.split('.')
        for elem in elems[:-1]:
            this = this.get(elem, {})
            if not this:
                return
        this.pop(elems[-1], None)

    def __contains__(self, key):
        return self.get(key) is not None

    def keys(self):
        this = self._data
        if self._pwd:
            for elem in self._pwd.split('.'):
                this = this.get(elem, {})
                if not this:
                    break
        return list((this or {}).keys())

    def dump(self, name=None):
        pass

    def close(self):
        pass


# ------------------------------------------------------------------------------
#
class PWatcher(object):
    def __init__(self, *a, **k):
        pass

    def __deepcopy__(self, memo):
        return self

    def watch(self, pid):
        pass

    def unwatch(self, pid):
        pass


class _Ids(object):
    '''deterministic in-memory replacement of ru.generate_id'''

    @staticmethod
    def generate_id(prefix, mode=None, ns=None, base=None):
        sim = _sim()
        cnt = sim.data.setdefault('ids', dict())
        key = (str(prefix), str(ns))
        n   = cnt.get(key, 0)
        cnt[key] = n + 1
        if '%(' in prefix:
            d = {'counter': n, 'item_counter': n, 'pid': 0, 'host': 'sim',
                 'date': '0000', 'time': '0000', 'seconds': 0, 'days': 0,
                 'user': 'sim', 'hours': 0, 'uuid': 'u%d' % n}
            return prefix % d
        return '%s.%04d' % (prefix, n)


class ZmqProxy(object):

    Publisher      = Publisher
    Subscriber     = Subscriber
    Putter         = Putter
    Getter         = Getter
    Queue          = BridgeQueue
    PubSub         = BridgePubSub
    RegistryClient = RegistryClient

    def __getattr__(self, k):
        return getattr(_ru.zmq, k)


class RuProxy(object):
    '''what patched radical.pilot modules see as `ru`'''

    def __init__(self, overrides=None):
        self.zmq = ZmqProxy()
        self._over = dict(overrides or {})

    def Logger(self, name='null', *a, **k):
        return NullLog(name)

    def Profiler(self, name='null', *a, **k):
        return NullProf(name)

    def Reporter(self, *a, **k):
        return NullProf('rep')

    Lock     = P.Lock
    RLock    = P.RLock
    PWatcher = PWatcher

    generate_id = staticmethod(_Ids.generate_id)

    def atfork(self, *a, **k):
        pass

    def get_hostname(self):
        sim = K.CUR
        if sim is not None:
            return sim.data.get('hostname', 'localhost')
        return 'localhost'

    def env_eval(self, *a, **k):
        return dict()

    def env_prep(self, *a, **k):
        return dict()

    def _io_fault(self, name, a, k):
        hook = _sim().data.get('os_fault')
        if hook:
            exc = hook(name, a, k)
            if exc is not None:
                raise exc

    def ru_open(self, *a, **k):
        self._io_fault('ru_open', a, k)
        return _ru.ru_open(*a, **k)

    def rec_makedir(self, *a, **k):
        self._io_fault('rec_makedir', a, k)
        return _ru.rec_makedir(*a, **k)

    def cancel_main_thread(self, *a, **k):
        _sim().log('cancel_main_thread')

    def get_hostip(self, *a, **k):
        return '127.0.0.1'

    def which(self, names):
        table = self._over.get('which_table')
        for n in _ru.as_list(names):
            if table is not None:
                if n in table:
                    return table[n]
                continue
            return '/sim/bin/%s' % n.split('/')[-1]
        return None

    def __getattr__(self, k):
        if k in self._over:
            return self._over[k]
        return getattr(_ru, k)
