'''
World N: the application level slot finder (resource_config.Node / NumaNode /
NodeList) under 1-3 simulated caller threads.  Serves C01 (what find_slots
hands out is disjoint from what is held, never a blocked resource, never more
lfs/mem than the node has) and C03 (release restores exactly what was taken,
never raises for slots which were handed out).
'''

import copy

from ..worlds import common as C
from ..       import kernel as K
from ..       import prims  as P

rp = C.rp


def gen(rng, tier):
    nodes = rng.randint(1, 4)
    cpn   = rng.choice([1, 2, 4, 6])
    gpn   = rng.choice([0, 1, 2])
    lay = {'nodes': nodes, 'cpn': cpn, 'gpn': gpn,
           'lfs': rng.choice([None, 0, 100]), 'mem': rng.choice([None, 0, 64]),
           'blocked_cores': [], 'blocked_gpus': [],
           'numa': cpn >= 4 and rng.random() < 0.25}
    if rng.random() < 0.1:
        lay['lfs'] = None
    if cpn >= 4 and rng.random() < 0.3:
        lay['blocked_cores'] = [rng.randrange(cpn)]
    if gpn >= 2 and rng.random() < 0.3:
        lay['blocked_gpus'] = [rng.randrange(gpn)]
    threads = list()
    for t in range(rng.choice([1, 1, 2, 3])):
        ops = list()
        for _ in range(rng.randint(2, 10)):
            if rng.random() < 0.6:
                rr = {'n_cores': rng.choice([1, 1, 2, cpn]),
                      'core_occupation': rng.choice([1.0, 1.0, 0.5]),
                      'n_gpus': rng.choice([0, 0, 1]) if gpn else 0,
                      'gpu_occupation': rng.choice([1.0, 0.5, 0.25]),
                      'lfs': rng.choice([0, 0, 10, 60])
                      if lay['lfs'] else 0,
                      'mem': rng.choice([0, 0, 8, 40])
                      if lay['mem'] else 0,
                      'numa': lay['numa'] and rng.random() < 0.5}
                ops.append(['find', rr, rng.choice([1, 1, 2, 3, nodes * 2])])
            else:
                ops.append(['release', rng.randrange(4)])
        threads.append(ops)
    return {'focus': 'nodelist', 'layout': lay, 'threads': threads,
            'yield_prob': 1.0, 'preempt': rng.choice([0.0, 0.05, 0.2])}


def run(seed, sc, trace=None, tier='quick'):

    lay = sc['layout']

    def build(sim, cfg):

        from radical.pilot.resource_config import (
            Node, NumaNode, NodeList, RankRequirements, NumaDomain,
            NumaDomainMap)
        import radical.pilot.constants as rpc

        st = {'held': dict(), 'n': 0, 'done': 0, 'nl': None,
              'max_held': 0}
        sim.data['nodelist'] = st

        def mk_nodes():
            nodes = list()
            for i in range(lay['nodes']):
                cores = [rpc.FREE] * lay['cpn']
                gpus  = [rpc.FREE] * lay['gpn']
                for b in lay['blocked_cores']:
                    cores[b] = rpc.DOWN
                for b in lay['blocked_gpus']:
                    gpus[b] = rpc.DOWN
                d = {'index': i, 'name': 'node%03d' % i, 'cores': cores,
                     'gpus': gpus}
                if lay['lfs'] is not None:
                    d['lfs'] = lay['lfs']
                if lay['mem'] is not None:
                    d['mem'] = lay['mem']
                if lay['numa']:
                    half = lay['cpn'] // 2
                    ndm = NumaDomainMap({
                        0: NumaDomain(cores=list(range(half)),
                                      gpus=list(range(lay['gpn'] // 2))),
                        1: NumaDomain(cores=list(range(half, lay['cpn'])),
                                      gpus=list(range(lay['gpn'] // 2,
                                                      lay['gpn'])))})
                    nodes.append(NumaNode(d, ndm))
                else:
                    nodes.append(Node(d))
            return nodes

        def snapshot(nl):
            out = list()
            for n in nl.nodes:
                out.append({'cores': [c.occupation for c in n.cores],
                            'gpus': [g.occupation for g in n.gpus],
                            'lfs': n.lfs, 'mem': n.mem})
            return out

        def check_grant(key, slots):
            # ledger: slots handed out now vs. everything held
            cores, gpus, lfs, mem = dict(), dict(), dict(), dict()
            allh = dict(st['held'])
            allh[key] = slots
            for k, ss in allh.items():
                for s in ss:
                    ni = s['node_index']
                    for c in s['cores']:
                        cores[(ni, c['index'])] = cores.get(
                            (ni, c['index']), 0.0) + c['occupation']
                    for g in s['gpus']:
                        gpus[(ni, g['index'])] = gpus.get(
                            (ni, g['index']), 0.0) + g['occupation']
                    lfs[ni] = lfs.get(ni, 0) + (s.get('lfs') or 0)
                    mem[ni] = mem.get(ni, 0) + (s.get('mem') or 0)
            for s in slots:
                ni = s['node_index']
                if ni < 0 or ni >= lay['nodes']:
                    sim.violation('C01', 'unknown_node', 'nodelist', s)
                    continue
                for c in s['cores']:
                    if c['index'] in lay['blocked_cores']:
                        sim.violation('C01', 'down_used', 'nodelist', s)
                    if cores[(ni, c['index'])] > 1.0 + 1e-9:
                        sim.violation('C01', 'core_shared', 'nodelist',
                                      {'slot': s, 'sum':
                                       cores[(ni, c['index'])]})
                for g in s['gpus']:
                    if g['index'] in lay['blocked_gpus']:
                        sim.violation('C01', 'down_used', 'nodelist', s)
                    if gpus[(ni, g['index'])] > 1.0 + 1e-9:
                        sim.violation('C01', 'gpu_over', 'nodelist',
                                      {'slot': s, 'sum':
                                       gpus[(ni, g['index'])]})
                if lay['lfs'] is not None and s.get('lfs') and \
                        lfs[ni] > lay['lfs'] + 1e-9:
                    sim.violation('C01', 'lfs_over', 'nodelist',
                                  {'node': ni, 'sum': lfs[ni]})
                if lay['mem'] is not None and s.get('mem') and \
                        mem[ni] > lay['mem'] + 1e-9:
                    sim.violation('C01', 'mem_over', 'nodelist',
                                  {'node': ni, 'sum': mem[ni]})

        def check_shape(rr, n_slots, slots):
            if len(slots) != n_slots:
                sim.violation('C02', 'n_ranks', 'nodelist',
                              {'want': n_slots, 'got': len(slots)})
            for s in slots:
                ci = [c['index'] for c in s['cores']]
                if len(ci) != rr['n_cores'] or len(set(ci)) != len(ci):
                    sim.violation('C02', 'cores_exact', 'nodelist',
                                  {'rr': rr, 'slot': s})
                gi = [g['index'] for g in s['gpus']]
                if len(gi) != rr['n_gpus'] or len(set(gi)) != len(gi):
                    sim.violation('C02', 'gpus_exact', 'nodelist',
                                  {'rr': rr, 'slot': s})

        def caller(tid, ops):
            nl = st['nl']
            mine = list()
            for op in ops:
                if op[0] == 'find':
                    rr = RankRequirements(**op[1])
                    try:
                        slots = nl.find_slots(rr, n_slots=op[2])
                    except (ValueError, RuntimeError):
                        slots = None          # documented refusals
                    except K.SimKilled:
                        raise
                    except BaseException as e:                     # noqa
                        # not an oversubscription: counted, not judged
                        sim.probe('finder_raises')
                        slots = None
                    if slots:
                        key = 'a%d.%d' % (tid, st['n'])
                        st['n'] += 1
                        sd = [s.as_dict() for s in slots]
                        sim.log('nl_grant', key=key, n=len(sd))
                        check_grant(key, sd)
                        check_shape(op[1], op[2], sd)
                        st['held'][key] = sd
                        st['max_held'] = max(st['max_held'],
                                             len(st['held']))
                        mine.append((key, slots))
                elif op[0] == 'release' and mine:
                    key, slots = mine.pop(op[1] % len(mine))
                    st['held'].pop(key, None)
                    sim.log('nl_release', key=key)
                    try:
                        nl.release_slots(slots)
                    except K.SimKilled:
                        raise
                    except BaseException as e:                     # noqa
                        sim.violation('C03', 'release_raises', 'nodelist',
                                      {'exc': repr(e)[:200],
                                       'lfs': lay['lfs'], 'mem': lay['mem']})
                sim.yield_('caller')
            # give everything back at the end
            for key, slots in mine:
                st['held'].pop(key, None)
                try:
                    nl.release_slots(slots)
                except K.SimKilled:
                    raise
                except BaseException as e:                         # noqa
                    sim.violation('C03', 'release_raises', 'nodelist',
                                  {'exc': repr(e)[:200], 'lfs': lay['lfs'],
                                   'mem': lay['mem']})
            st['done'] += 1

        def driver():
            nl = NodeList(nodes=mk_nodes())
            nl.verify()
            st['nl']   = nl
            st['init'] = snapshot(nl)
            ths = list()
            for i, ops in enumerate(sc['threads']):
                ths.append(sim.spawn(lambda i=i, ops=ops: caller(i, ops),
                                     'caller%d' % i, group='app%d' % i))
            sim.block(lambda: st['done'] == len(ths), 600.0, what='callers')

        def final(sim):
            if st['held']:
                return
            if any(v['clause'] == 'release_raises' for v in sim.violations):
                return
            end = snapshot(st['nl'])
            if end != st['init']:
                for i, (a, b) in enumerate(zip(st['init'], end)):
                    if a != b:
                        sim.violation('C03', 'capacity_drift', 'nodelist',
                                      {'node': i, 'initial': a, 'final': b})
                        break

        cfg['final'] = final
        return driver

    pre = None
    if sc.get('preempt'):
        # (typeddict.py: attribute reads and writes of the node objects are
        # python calls - a pre-emption there splits a `+=` on a node field)
        pre = (('resource_config.py', 'utils/typeddict.py'), sc['preempt'])
    res = C.run_world(seed, build, trace=trace, preempt=pre,
                      max_steps=60000 if tier == 'quick' else 200000)
    st = res['sim'].data.get('nodelist') or {}
    res['max_held'] = st.get('max_held', 0)
    res['n_grants'] = st.get('n', 0)
    res['state_fp'] = ['nodelist', res['max_held'], res['n_grants']]
    return res


def shrink(sc):
    out = list()
    th = sc['threads']
    for i in range(len(th)):
        if len(th) > 1:
            c = dict(sc); c['threads'] = th[:i] + th[i + 1:]; out.append(c)
        for j in range(len(th[i])):
            c = dict(sc)
            c['threads'] = th[:i] + [th[i][:j] + th[i][j + 1:]] + th[i + 1:]
            out.append(c)
    if sc.get('preempt'):
        c = dict(sc); c['preempt'] = 0.0; out.append(c)
    return out
