'''
C15 - waiting on tasks and pilots returns when it should.

World B with the virtual clock: application threads call Task.wait,
TaskManager.wait_tasks, Pilot.wait and PilotManager.wait_pilots with seeded
(uids, state, timeout) while the driver moves the entities along seeded
trajectories (ending in the awaited state, a different final state, or not at
all).
'''

from ..worlds import common as C
from ..worlds import client as W
from ..       import kernel as K
from .c06     import VAL, STATES, FINAL
from .c14     import PVAL, PST

rp, rps = C.rp, C.rps

PROP = 'C15'
EPS  = 0.45          # poll period 0.1s + slack (virtual seconds)
HOLD = 0.30          # an awaited state held this long must be noticed
GIVE_UP = 60.0
FRESH = 0.05         # every wait call reads the states it returns on return


def gen(rng, tier):

    nt = rng.randint(1, 4)
    np_ = rng.randint(1, 3)
    ents = list()
    for kind, n, states, val in (('task', nt, STATES, VAL),
                                 ('pilot', np_, PST, PVAL)):
        for i in range(n):
            end = rng.choice(['done', 'failed', 'canceled', 'open', 'done'])
            last = len(states) - 1 if end == 'done' \
                else rng.randint(1, len(states) - 1)
            first = 2
            traj = list(states[first:last + 1])
            if end == 'done'    : traj.append(rps.DONE)
            if end == 'failed'  : traj.append(rps.FAILED)
            if end == 'canceled': traj.append(rps.CANCELED)
            steps, t = list(), round(rng.uniform(0.0, 1.0), 2)
            for s in traj:
                steps.append([t, s])
                # every state is held long enough to be seen by a poller, or
                # passed quickly (then it is not an obligation, see oracle)
                t = round(t + rng.choice([0.02, 0.4, 0.4, 0.8, 1.5]), 2)
            ents.append({'kind': kind, 'idx': i, 'steps': steps})
    waits = list()
    for w in range(rng.randint(1, 4)):
        api = rng.choice(['task.wait', 'tmgr.wait_tasks', 'pilot.wait',
                          'pmgr.wait_pilots'])
        if api.startswith('task') or api.startswith('tmgr'):
            n, states = nt, STATES
        else:
            n, states = np_, PST
        if api in ('task.wait', 'pilot.wait'):
            targets = [rng.randrange(n)]
        else:
            targets = rng.choice([None, sorted(rng.sample(range(n),
                                               rng.randint(1, n)))])
            if targets and rng.random() < 0.5:
                # the caller lists the entities in an order of its own
                rng.shuffle(targets)
        sk = rng.choice(['none', 'none', 'one', 'several', 'final'])
        if sk == 'none':
            state = None
        elif sk == 'one':
            state = rng.choice(states[2:])
        elif sk == 'final':
            state = rng.choice(FINAL)
        else:
            state = sorted(rng.sample(states[2:] + FINAL, rng.randint(2, 3)))
        timeout = rng.choice([None, None, 0.5, 2.0, 30.0])
        at = round(rng.uniform(0.0, 4.0), 2)
        if rng.random() < 0.25:
            # a timeout which expires right after one of the awaited entities
            # moves (the move falls into the call's last poll period)
            kind = 'task' if api[0] == 't' else 'pilot'
            moves = [t for e in ents if e['kind'] == kind and
                     (targets is None or e['idx'] in targets)
                     for t, _ in e['steps'] if t > at + 0.2]
            if moves:
                timeout = round(rng.choice(moves) - at +
                                rng.choice([0.01, 0.02, 0.05, 0.08]), 3)
        waits.append({'api': api, 'targets': targets, 'state': state,
                      'timeout': timeout, 'at': at})
    # application callbacks which take their time (legal use): the manager's
    # notification thread sits in one while wait calls poll, time out, return
    slow = None
    if rng.random() < 0.3:
        slow = {'kind': rng.choice(['task', 'pilot', 'both']),
                'dt': rng.choice([0.5, 2.0, 5.0]),
                'prob': rng.choice([0.3, 1.0])}
    return {'nt': nt, 'np': np_, 'ents': ents, 'waits': waits,
            'delay_max': rng.choice([0.0, 0.0, 0.05]), 'slow_cb': slow}


def run(seed, scenario, trace=None, tier='quick'):

    sc = scenario

    def build(sim, cfg):

        st = {'tasks': [], 'pilots': [], 'hist': {}, 'calls': [],
              'last_move': 0.0}

        def sample(ev=None):
            for ent in st['tasks'] + st['pilots']:
                h = st['hist'].setdefault(ent.uid, [])
                s = ent.state
                if not h or h[-1][1] != s:
                    h.append((sim.now, s))
        sim.listeners.append(sample)

        def driver():
            side = W.make_client(sim)
            net  = C.N.net()
            net.delay_max = sc['delay_max']
            tmgr = W.make_tmgr(side, components=False)
            pmgr = W.make_pmgr(side)
            sim.freeze('Idler')
            pilots = pmgr.submit_pilots([W.pilot_descr('/nonexistent/dst')
                                         for _ in range(sc['np'])])
            tasks  = tmgr.submit_tasks([rp.TaskDescription(
                {'executable': '/bin/true'}) for _ in range(sc['nt'])])
            st['tasks'], st['pilots'] = tasks, pilots
            slow = sc.get('slow_cb')
            if slow:
                def slow_cb(*a):
                    # (decided per invocation by the schedule stream)
                    if sim.ch.coin(slow['prob']):
                        sim.fault('slow_callback')
                        sim.sleep(slow['dt'])
                if slow['kind'] in ('task', 'both'):
                    tmgr.register_callback(slow_cb)
                if slow['kind'] in ('pilot', 'both'):
                    pmgr.register_callback(slow_cb)
            pub = W.state_publisher(side)
            W.wait_until(sim, lambda: net.idle(queues=False), 10.0)
            sample()
            t0 = sim.now
            st['t0'] = t0

            def waiter(w, rec):
                api = w['api']
                tg  = w['targets']
                kw  = {'state': w['state'], 'timeout': w['timeout']}
                if api == 'task.wait':
                    ents = [tasks[tg[0]]]
                    call = lambda: tasks[tg[0]].wait(**kw)
                elif api == 'pilot.wait':
                    ents = [pilots[tg[0]]]
                    call = lambda: pilots[tg[0]].wait(**kw)
                elif api == 'tmgr.wait_tasks':
                    ents = tasks if tg is None else [tasks[i] for i in tg]
                    uids = None if tg is None else [e.uid for e in ents]
                    call = lambda: tmgr.wait_tasks(uids=uids, **kw)
                else:
                    ents = pilots if tg is None else [pilots[i] for i in tg]
                    uids = None if tg is None else [e.uid for e in ents]
                    if tg is None:
                        # documented: only non-final pilots are considered
                        ents = [p for p in pilots if p.state not in FINAL]
                    call = lambda: pmgr.wait_pilots(uids=uids, **kw)
                rec['ents']   = [e.uid for e in ents]
                rec['t_call'] = sim.now
                sample()
                rec['ret']    = call()
                rec['t_ret']  = sim.now
                sample()
                rec['actual'] = [e.state for e in ents]
                rec['done']   = True

            threads = list()
            timeline = list()
            for e in sc['ents']:
                for t, s in e['steps']:
                    timeline.append((t, 0, e['kind'], e['idx'], s))
            for i, w in enumerate(sc['waits']):
                timeline.append((w['at'], 1, 'wait', i, None))
            timeline.sort()
            for t, _, kind, idx, s in timeline:
                dt = t0 + t - sim.now
                if dt > 0:
                    sim.sleep(dt)
                if kind == 'wait':
                    w   = sc['waits'][idx]
                    rec = {'w': w, 'done': False}
                    st['calls'].append(rec)
                    th = C.P.Thread(target=waiter, args=[w, rec],
                                    name='app.wait.%d' % idx)
                    th.start()
                    threads.append(th)
                else:
                    ent = (st['tasks'] if kind == 'task'
                           else st['pilots'])[idx]
                    pub.put(C.rpc.STATE_PUBSUB, {'cmd': 'update', 'arg': [
                        {'uid': ent.uid, 'type': kind, 'state': s}]})
                    st['last_move'] = sim.now
            # bounded liveness: everything which can return must have returned
            # GIVE_UP seconds after the last move and after every timeout
            limit = sim.now + GIVE_UP + 31.0
            while sim.now < limit and not all(r['done'] for r in st['calls']):
                sim.sleep(1.0)
            sample()
            st['t_end'] = sim.now

        def reached(uid, want, vals, t):
            '''state of uid at time t, from the sampled history'''
            cur = None
            for ts, s in st['hist'].get(uid, []):
                if ts <= t:
                    cur = s
            return cur

        def t_sat_of(uid, want, vals):
            '''(t_reach, t_hold): first time the entity is at-or-beyond a
            requested state or final; first time it *sits* in a requested
            state for HOLD seconds, or is final'''
            h = st['hist'].get(uid, [])
            lo = min(vals[s] for s in want)
            t_reach = t_hold = None
            for i, (ts, s) in enumerate(h):
                nxt = h[i + 1][0] if i + 1 < len(h) else float('inf')
                if t_reach is None and (s in FINAL or vals[s] >= lo):
                    t_reach = ts
                if t_hold is None and (s in FINAL or
                                       (s in want and nxt - ts >= HOLD)):
                    t_hold = ts
            return t_reach, t_hold

        def final(sim):
            for rec in st['calls']:
                w    = rec['w']
                api  = w['api']
                vals = VAL if api[0] == 't' else PVAL
                want = w['state']
                if not want:
                    want = list(FINAL)
                elif not isinstance(want, list):
                    want = [want]
                ents = rec.get('ents', [])
                t0c  = rec.get('t_call')
                if t0c is None:
                    continue
                reach, hold = list(), list()
                for uid in ents:
                    a, b = t_sat_of(uid, want, vals)
                    reach.append(a)
                    hold.append(b)
                t_reach = None if any(x is None for x in reach) \
                    else max([t0c] + reach)
                # "has reached one of the requested states": at or beyond the
                # earliest requested state of the linear model, or final
                t_hold  = t_reach
                t_to    = None if not w['timeout'] else t0c + w['timeout']
                cands   = [x for x in (t_hold, t_to) if x is not None]
                must_by = min(cands) if cands else None
                det = {'api': api, 'state': w['state'],
                       'timeout': w['timeout'],
                       't_call': round(t0c - st['t0'], 3),
                       't_sat': None if t_hold is None
                       else round(t_hold - st['t0'], 3),
                       'ents': {u: [(round(t - st['t0'], 3), s) for t, s in
                                    st['hist'].get(u, [])] for u in ents}}
                site = api
                if not rec['done']:
                    if must_by is not None:
                        sim.violation(PROP, 'never_returns', site, det)
                    continue
                t_ret = rec['t_ret']
                det['t_ret'] = round(t_ret - st['t0'], 3)
                det['ret']   = rec['ret']
                if must_by is not None and t_ret > must_by + EPS:
                    clause = 'late_return'
                    if t_to is not None and must_by == t_to:
                        clause = 'late_timeout'
                    sim.violation(PROP, clause, site, det)
                early_ok = []
                if t_reach is not None:
                    early_ok.append(t_reach)
                if t_to is not None:
                    early_ok.append(t_to)
                if not early_ok or t_ret < min(early_ok) - 1e-9:
                    if ents:
                        sim.violation(PROP, 'early_return', site, det)
                # returned value = actual states (all four calls read the
                # state(s) they return after their last poll, on return)
                def held(uid):
                    h = st['hist'].get(uid, [])
                    out = set()
                    for i, (ts, s_) in enumerate(h):
                        nxt = h[i + 1][0] if i + 1 < len(h) else float('inf')
                        if ts <= t_ret and nxt >= t_ret - FRESH:
                            out.add(s_)
                    return out
                ret = rec['ret']
                if api in ('task.wait', 'pilot.wait'):
                    ok = ret in held(ents[0])
                elif w['targets'] is None and api == 'pmgr.wait_pilots':
                    ok = isinstance(ret, list)
                else:
                    rl = ret if isinstance(ret, list) else [ret]
                    ok = len(rl) == len(ents) and \
                        all(r in held(u) for r, u in zip(rl, ents))
                if not ok:
                    det['actual'] = rec['actual']
                    sim.violation(PROP, 'false_state', site, det)

        cfg['final'] = final
        return driver

    res = C.run_world(seed, build, trace=trace,
                      max_steps=120000 if tier == 'quick' else 400000)
    res['nontrivial'] = True
    return res


def shrink(sc):
    out = list()
    for i in range(len(sc['waits'])):
        if len(sc['waits']) > 1:
            c = dict(sc); c['waits'] = sc['waits'][:i] + sc['waits'][i + 1:]
            out.append(c)
    for i, e in enumerate(sc['ents']):
        if len(e['steps']) > 0:
            for j in range(len(e['steps'])):
                c = dict(sc)
                ne = dict(e); ne['steps'] = e['steps'][:j] + e['steps'][j + 1:]
                c['ents'] = sc['ents'][:i] + [ne] + sc['ents'][i + 1:]
                out.append(c)
    for i, w in enumerate(sc['waits']):
        if w['timeout']:
            c = dict(sc); nw = dict(w); nw['timeout'] = None
            c['waits'] = sc['waits'][:i] + [nw] + sc['waits'][i + 1:]
            out.append(c)
    if sc['delay_max']:
        c = dict(sc); c['delay_max'] = 0.0; out.append(c)
    if sc.get('slow_cb'):
        c = dict(sc); c['slow_cb'] = None; out.append(c)
    return out


SEEDS  = {'quick': 2500, 'thorough': 100000}
BUDGET = {'quick': 240, 'thorough': 3000}

INFO = {
    'real': ['Task.wait', 'TaskManager.wait_tasks', 'Pilot.wait',
             'PilotManager.wait_pilots', 'the managers\' notification paths '
             '(as in C06/C14)'],
    'stub': ['transport/registry (simulated)', 'agents and launcher (driver '
             'publishes the trajectories)', 'time.time/time.sleep = virtual '
             'clock'],
    'rule': 'scenario = 1-4 tasks + 1-3 pilots on seeded timed trajectories, '
            '1-4 concurrent wait calls (api x uids x state none/one/several/'
            'final x timeout none/0.5/2/30); every run non-trivial; distinct '
            '= distinct event-log digest',
    'assumptions': ['"reached a requested state" = at or beyond the earliest '
                    'requested state of the linear model, or final (the '
                    'semantics TaskManager.wait_tasks documents); eps = 0.45s '
                    'virtual',
                    'never_returns = not returned 60s (virtual) after the '
                    'last state change and after any timeout'],
}
