'''C05 - every submitted task ends in one final state that tells the truth'''
from . import e2esim as S

PROP  = 'C05'
KNOBS = {'max_tasks': 7, 'fail_share': 0.2, 'spawn_fail_share': 0.08,
         'timeout_share': 0.08, 'sd_share': 0.3, 'cancel_prob': 0.3,
         'work_exc_prob': 0.45, 'io_fault_prob': 0.25, 'rich_sds': False,
         'out_bulk_prob': 0.12, 'rich_share': 0.3, 'soe_share': 0.2,
         'preplaced_share': 0.12, 'exit_race': 0.15,
         'named_env_prob': 0.12}


def _nontrivial(sc, res):
    return len(sc['tasks']) >= 3 and (bool(sc['ops']) or any(
        t['rc'] or t.get('spawn_error') for t in sc['tasks']))


gen, run = S.make_check(PROP, KNOBS, _nontrivial)
shrink = S.shrink
SEEDS  = {'quick': 1000, 'thorough': 15000}
BUDGET = {'quick': 280, 'thorough': 3300}
BLOCK  = 10
INFO   = dict(S.INFO)
INFO['rule'] = ('scenario = 3-7 tasks (exit codes, spawn errors, timeouts, '
                'multi-rank tasks without MPI launcher, a few staging '
                'directives incl. missing sources) through the whole '
                'client->proxy->agent->client pipeline, plus faults: an '
                'exception in the work routine of one of 7 components, one '
                'file system error (script, link, move, mkdir), cancels, '
                'message delays, stalled threads; non-trivial = >=3 tasks and '
                '>=1 fault; distinct = distinct event-log digest')
