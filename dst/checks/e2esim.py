'''
Shared machinery for the end-to-end properties C05 (one truthful final state)
and C11 (staging directives move the named data to the named place).
'''

import os
import copy

import radical.utils as ru

from ..worlds import common as C
from ..worlds import client as W
from ..worlds import agent  as A
from ..worlds import e2e    as E
from ..       import kernel as K
from ..       import net    as N
from ..       import prims  as P

rp, rps, rpc = C.rp, C.rps, C.rpc
FINAL = W.FINAL

COMPONENTS = ['tmgr_scheduling', 'tmgr_staging_input', 'tmgr_staging_output',
              'agent_staging_input', 'agent_scheduling', 'agent_executing',
              'agent_staging_output', 'agent_0']


# ------------------------------------------------------------------------------
# staging directive generation
#
# every source file has unique content `<task>:<directive>` so that a target is
# attributable to exactly one directive
#
def gen_sds(rng, ti, n_in, n_out, rich):
    ins, outs = list(), list()
    for k in range(n_in):
        name = 'in_%d_%d.dat' % (ti, k)
        form = rng.choice(['bare', 'gt', 'gtgt', 'lt', 'ltlt', 'dict', 'dict',
                           'dict_notgt']
                          if rich else ['bare', 'dict'])
        action = rng.choice([rp.TRANSFER, rp.TRANSFER, rp.COPY, rp.LINK,
                             rp.MOVE, rp.TARBALL] if rich else [rp.TRANSFER])
        src_space = 'client'
        if action in (rp.COPY, rp.LINK, rp.MOVE):
            src_space = rng.choice(['pilot', 'session', 'resource'])
        tgt_name = rng.choice([name, 'sub/%s' % name, 'renamed_%s' % name])
        sd = {'form': form, 'action': action, 'src_space': src_space,
              'name': name, 'tgt_name': tgt_name,
              'tgt_schema': rng.choice(['rel', 'task', 'task', 'pilot'])
              if rich else 'rel',
              'src_abs': rng.random() < 0.2 if rich else False,
              'missing': rng.random() < (0.12 if rich else 0.15)}
        if form in ('bare', 'dict_notgt'):
            sd['tgt_name'] = name
            sd['tgt_schema'] = 'rel'
        if form in ('bare', 'gt', 'gtgt', 'lt', 'ltlt'):
            sd['action'] = rp.TRANSFER
            sd['src_space'] = 'client'
            sd['tgt_schema'] = 'rel'
        if sd['src_space'] == sd['tgt_schema'] and sd['tgt_name'] == name:
            sd['tgt_name'] = 'renamed_%s' % name      # never onto itself
        ins.append(sd)
    for k in range(n_out):
        name = 'out_%d_%d.dat' % (ti, k)
        form = rng.choice(['bare', 'lt', 'ltlt', 'gt', 'gtgt', 'dict', 'dict']
                          if rich else ['bare', 'dict'])
        action = rng.choice([rp.TRANSFER, rp.TRANSFER, rp.COPY, rp.MOVE]
                            if rich else [rp.TRANSFER])
        sd = {'form': form, 'action': action, 'name': name,
              'tgt_name': rng.choice([name, 'results/%s' % name]),
              'tgt_space': 'client', 'missing': rng.random() < 0.1}
        if action in (rp.COPY, rp.MOVE):
            sd['tgt_space'] = rng.choice(['pilot', 'session'])
        if form in ('bare', 'lt', 'ltlt', 'gt', 'gtgt'):
            sd['action'] = rp.TRANSFER
            sd['tgt_space'] = 'client'
            if form == 'bare':
                sd['tgt_name'] = name
        if form == 'dict' and sd['action'] == rp.TRANSFER and \
                sd['tgt_space'] == 'client' and rng.random() < 0.3:
            # a target which is accepted at submission but cannot be resolved
            # when the client side output stager meets it (a host in a
            # `client://` URL): cannot be carried out - fails this task only
            sd['bad_url'] = True
            sd['missing'] = True
        outs.append(sd)
    return ins, outs


def gen_scenario(rng, tier, knobs):
    lay = {'nodes': rng.choice([1, 2, 2]), 'cpn': rng.choice([2, 4]),
           'gpn': 0, 'lfs': 0, 'mem': 0, 'blocked_cores': [],
           'blocked_gpus': [], 'agent_nodes': 0, 'scattered': True,
           'rm': 'FORK', 'sched': 'CONTINUOUS', 'spawner': 'POPEN',
           'lms': rng.choice([['FORK', 'MPIRUN'], ['FORK', 'MPIRUN'],
                              ['FORK']])}
    n = rng.randint(knobs.get('min_tasks', 3), knobs.get('max_tasks', 7))
    tasks = list()
    for i in range(n):
        d = {'executable': '/bin/true', 'ranks': rng.choice([1, 1, 1, 2]),
             'cores_per_rank': 1}
        t = {'descr': d, 'at': round(rng.choice([0.0, 0.0, rng.uniform(
            0, 3.0)]), 2), 'runtime': rng.choice([0.0, 0.1, 0.3, 1.0]),
            'rc': 0, 'ins': [], 'outs': []}
        if rng.random() < knobs.get('fail_share', 0.2):
            t['rc'] = rng.choice([1, 2, 127])
        if rng.random() < knobs.get('spawn_fail_share', 0.08):
            t['spawn_error'] = True
        if rng.random() < knobs.get('timeout_share', 0.08):
            d['timeout'] = 0.5
            t['runtime'] = rng.choice([0.1, 3.0])
        if rng.random() < knobs.get('sd_share', 0.4):
            rich = knobs.get('rich_sds', False) or (
                bool(knobs.get('rich_share')) and
                rng.random() < knobs['rich_share'])
            t['ins'], t['outs'] = gen_sds(rng, i, rng.randint(0, 3),
                                          rng.randint(0, 2), rich)
        if rng.random() < knobs.get('soe_share', 0.1):
            d['stage_on_error'] = True
        tasks.append(t)
    if knobs.get('preplaced_share') and \
            rng.random() < knobs['preplaced_share']:
        # application made placements (description.slots, from the pilot's
        # node list) for the first tasks, into the idle pilot; the others
        # are placed by the pilot scheduler afterwards
        k = rng.randint(1, max(1, n // 2))
        for i, t in enumerate(tasks):
            if i < k:
                t['preplaced'] = True
                t['at'] = 0.0
                t['runtime'] = rng.choice([0.3, 1.0, 2.5])
            else:
                t['at'] = round(0.5 + t['at'], 2)
    ops = list()
    if rng.random() < knobs.get('cancel_prob', 0.3):
        ops.append([round(rng.uniform(0.0, 3.0), 2), 'cancel',
                    sorted(rng.sample(range(n), rng.randint(1, 2)))])
        if knobs.get('long_cancel'):
            # the named tasks live long enough to tell whether the request
            # issued by the application stopped them
            for i in ops[-1][2]:
                tasks[i]['runtime'] = rng.choice([1.0, 8.0, 8.0])
                tasks[i]['descr'].pop('timeout', None)
    if rng.random() < knobs.get('work_exc_prob', 0.4):
        # (last field: the exception escapes on entry, or only after the
        # routine has advanced the bulk into its working state)
        ops.append([0.0, 'work_exc', rng.choice(COMPONENTS[:7]),
                    rng.randrange(n), rng.choice(['entry', 'late'])])
    if rng.random() < knobs.get('io_fault_prob', 0.2):
        ops.append([0.0, 'io_fault', rng.choice(['script', 'link', 'move',
                                                 'mkdir']),
                    rng.randrange(n)])
    ops.sort(key=lambda o: o[0])
    sc = {'layout': lay, 'tasks': tasks, 'ops': ops,
          'sched': rng.choice(['round_robin', 'round_robin',
                               'backfilling']),
          'delay_max': rng.choice([0.0, 0.0, 0.05, 0.2]),
          'stall': rng.choice([0.0, 0.0, 0.01]),
          'bulk_max': rng.choice([1, 4, 1024])}
    # a second pilot whose agent is played by the driver ("ghost"): the task
    # manager then serves two pilots and its components see mixed bulks.
    # Drawn last: the rest of the scenario of a seed stays what it was.
    if rng.random() < knobs.get('ghost_prob', 0.3):
        # 'early': tasks name their pilot; 'late': the tmgr scheduler binds
        # them (every task then is one the ghost can play)
        sc['ghost'] = rng.choice(['early', 'late'])
        for i, t in enumerate(tasks):
            if sc['ghost'] == 'late' or rng.random() < 0.45:
                t['ghost'] = True if sc['ghost'] == 'early' else 'any'
                t['descr']['ranks'] = 1
                t['descr'].pop('timeout', None)
                t['descr'].pop('stage_on_error', None)
                t.pop('spawn_error', None)
                t['runtime'] = min(t['runtime'], 0.3)
                t['outs'] = []
                t['ins'] = [{'form': rng.choice(['bare', 'dict']),
                             'action': rp.TRANSFER, 'src_space': 'client',
                             'name': 'in_%d_%d.dat' % (i, k),
                             'tgt_name': 'in_%d_%d.dat' % (i, k),
                             'tgt_schema': 'rel', 'src_abs': False,
                             'missing': rng.random() < 0.3}
                            for k in range(rng.choice([0, 1, 1, 2]))]
    # a real Pilot object (instead of a pilot dict) with data staged into
    # the pilot sandbox by Pilot.stage_in before / after the pilot is added to
    # the task manager; tasks then COPY / LINK that data.  Drawn last.
    if rng.random() < knobs.get('real_pilot_prob', 0.35):
        sc['real_pilot'] = True
        sc['pstage'] = [{'name': 'shared_%d.dat' % k,
                         'when': rng.choice(['before_add', 'after_add']),
                         'form': 'dict'}
                        for k in range(rng.randint(0, 3))]
        for i, t in enumerate(tasks):
            if sc['pstage'] and not t.get('ghost') and rng.random() < 0.5:
                ps = rng.choice(sc['pstage'])
                t['ins'] = t['ins'] + [{
                    'form': 'dict', 'action': rng.choice([rp.COPY, rp.LINK]),
                    'src_space': 'pilot', 'name': ps['name'],
                    'tgt_name': rng.choice([ps['name'], 'sub/%s' % ps['name']]),
                    'tgt_schema': 'rel', 'src_abs': False, 'missing': False,
                    'pstaged': True}]
    # flavour: the tasks finish together and reach the output stagers as one
    # bulk; one of them has an output directive which cannot be carried out.
    # Drawn after everything else.
    if rng.random() < knobs.get('out_bulk_prob', 0.0) and \
            not sc.get('ghost'):
        rt = rng.choice([0.1, 0.3])
        bad = rng.randrange(len(tasks))
        for i, t in enumerate(tasks):
            t['at'], t['runtime'], t['rc'] = 0.0, rt, 0
            t['descr']['ranks'] = 1
            t['descr'].pop('timeout', None)
            t.pop('spawn_error', None)
            kind = rng.choice(['bad_url', 'missing']) if i == bad else None
            t['outs'] = [{'form': 'dict', 'action': rp.TRANSFER,
                          'name': 'out_%d_0.dat' % i,
                          'tgt_name': 'out_%d_0.dat' % i,
                          'tgt_space': 'client', 'missing': kind is not None,
                          'bad_url': kind == 'bad_url'}]
        sc['ops'] = [o for o in sc['ops'] if o[1] == 'partition']
        sc['layout']['cpn'] = max(sc['layout']['cpn'], 4)
        sc['layout']['nodes'] = 2
    # tuning knob: number of tasks without client side staging from which on
    # the tmgr input stager pre-creates their sandboxes by tar (default 16)
    sc['mkdir_threshold'] = rng.choice([16, 16, 1, 2, 3])
    # the connection between one side and the proxy pubsubs is cut for a
    # while: state updates and cancel requests are held (not lost) until it
    # heals.  Drawn last.
    if rng.random() < knobs.get('partition_prob', 0.15):
        sc['ops'] = sorted(sc['ops'] + [[
            round(rng.uniform(0.0, 3.0), 2), 'partition',
            rng.choice(['client', 'pilot.0000']),
            rng.choice([0.5, 2.0, 5.0])]], key=lambda o: o[0])
    # tasks which run in a named environment: they wait in the pilot until
    # the environment is registered (what `Pilot.prepare_env` leads to; here
    # the driver publishes the registration on the pilot side).  Drawn late.
    if rng.random() < knobs.get('named_env_prob', 0.0):
        for t in tasks:
            if rng.random() < 0.4 and t['descr'].get('ranks', 1) == 1:
                t['descr']['named_env'] = 'env0'
        sc['ops'] = sorted(sc['ops'] + [[
            round(rng.uniform(0.0, 4.0), 2), 'named_env', 'env0']],
            key=lambda o: o[0])
    # cancel requests issued by the application a moment before the process
    # of the named task ends by itself (triggered by its spawn): they reach
    # the executor around the instant of the exit.  Drawn last.
    if rng.random() < knobs.get('exit_race', 0.0):
        for i in rng.sample(range(len(tasks)), min(len(tasks),
                                                   rng.randint(1, 3))):
            t = tasks[i]
            if t.get('spawn_error') or t['descr'].get('timeout'):
                continue
            t['runtime'] = rng.choice([0.3, 0.5, 1.0])
            sc['ops'].append([rng.choice([0.0, 0.005, 0.02, 0.05, 0.1]),
                              'cancel_on', [i], i, 'pre_exit'])
    return sc


# ------------------------------------------------------------------------------
# reference resolver of the documented URL rules
#
GHOST = 'pilot.0001'


def spaces(w, uid, ghost=False):
    psbox = '%s/%s' % (w['ssbox'], GHOST) if ghost else w['psbox']
    return {'client' : w['csbox'],
            'resource': w['rsbox'],
            'session': w['ssbox'],
            'pilot'  : psbox,
            'task'   : '%s/%s' % (psbox, uid)}


def content_of(uid, name):
    return '%s:%s\n' % (uid, name)


def make_directives(w, uid, t):
    '''-> (input_staging, output_staging, expectations)

    expectations: list of dict(kind=in|out, path=expected target path,
                  content=, missing=bool, action=)'''
    sp = spaces(w, uid, t.get('ghost') is True)
    gsp = spaces(w, uid, True)
    ins, outs, exp = list(), list(), list()
    for sd in t['ins']:
        src_dir = sp[sd['src_space']]
        src_path = '%s/%s' % (src_dir, sd['name'])
        content = content_of(uid, sd['name'])
        if sd.get('pstaged'):
            # staged into the pilot sandbox by Pilot.stage_in
            content = content_of('shared', sd['name'])
        elif not sd['missing']:
            os.makedirs(src_dir, exist_ok=True)
            with open(src_path, 'w') as f:
                f.write(content)
        # how the application writes the source
        if sd['src_space'] == 'client':
            src = src_path if sd.get('src_abs') else sd['name']
        else:
            src = '%s:///%s' % (sd['src_space'], sd['name'])
        # target
        if sd['tgt_schema'] == 'rel':
            tgt, tgt_path = sd['tgt_name'], '%s/%s' % (sp['task'],
                                                       sd['tgt_name'])
        else:
            tgt = '%s:///%s' % (sd['tgt_schema'], sd['tgt_name'])
            tgt_path = '%s/%s' % (sp[sd['tgt_schema']], sd['tgt_name'])
        if sd['form'] == 'bare':
            ins.append(src)
        elif sd['form'] == 'gt':
            ins.append('%s > %s' % (src, tgt))
        elif sd['form'] == 'gtgt':
            ins.append('%s >> %s' % (src, tgt))
        elif sd['form'] == 'lt':
            ins.append('%s < %s' % (tgt, src))
        elif sd['form'] == 'ltlt':
            ins.append('%s<<%s' % (tgt, src))
        elif sd['form'] == 'dict_notgt':
            ins.append({'source': src, 'action': sd['action']})
        else:
            ins.append({'source': src, 'target': tgt, 'action': sd['action']})
        exp.append({'kind': 'in', 'path': os.path.normpath(tgt_path),
                    'content': content,
                    'missing': sd['missing'], 'action': sd['action'],
                    'name': sd['name'], 'src_path': src_path})
        if t.get('ghost') == 'any':
            # late binding: where the target is depends on the pilot chosen
            exp[-1]['gpath'] = os.path.normpath('%s/%s' % (gsp['task'],
                                                           sd['tgt_name']))
    for sd in t['outs']:
        # the simulated process "produces" its output files: the harness
        # writes them into the task sandbox when the process is spawned
        src = sd['name']
        tgt_dir = sp[sd['tgt_space']]
        if sd.get('bad_url'):
            tgt = 'client://localhost/%s' % sd['tgt_name']
        elif sd['tgt_space'] == 'client':
            tgt = sd['tgt_name']
        else:
            tgt = '%s:///%s' % (sd['tgt_space'], sd['tgt_name'])
        tgt_path = '%s/%s' % (tgt_dir, sd['tgt_name'])
        if sd['form'] == 'bare':
            outs.append(src)
        elif sd['form'] == 'lt':
            outs.append('%s < %s' % (tgt, src))
        elif sd['form'] == 'ltlt':
            outs.append('%s << %s' % (tgt, src))
        elif sd['form'] == 'gt':
            outs.append('%s>%s' % (src, tgt))
        elif sd['form'] == 'gtgt':
            outs.append('%s >> %s' % (src, tgt))
        else:
            outs.append({'source': src, 'target': tgt,
                         'action': sd['action']})
        exp.append({'kind': 'out', 'path': os.path.normpath(tgt_path),
                    'content': content_of(uid, sd['name']),
                    'missing': sd['missing'], 'action': sd['action'],
                    'name': sd['name'], 'bad_url': sd.get('bad_url', False)})
    return ins, outs, exp


# ------------------------------------------------------------------------------
#
def run(seed, sc, trace=None, tier='quick'):

    def build(sim, cfg):

        st = {'w': None, 'tasks': [], 'uids': [], 'exp': {}, 'cb': {},
              'samples': {}, 'plans': {}, 'exc_hit': set(), 'io_hit': set(),
              'cancel': set(), 'cancel_at': {}, 'submitted_at': {},
              'spec': {}, 'ghost_seen': {}, 'pstage_err': [],
              'cancel_t': {}}
        sim.data['e2e'] = st

        def ghost_agent():
            # plays the agent of the second pilot: takes its tasks from the
            # proxy queue and hands them back with the outcome of the plan
            w   = st['w']
            reg = w['client'].reg
            qn  = rpc.PROXY_TASK_QUEUE
            g = N.Getter(qn, url=reg['bridges.%s' % qn]['addr_get'])
            p = N.Putter(qn, url=reg['bridges.%s' % qn]['addr_put'])
            while True:
                for task in g.get_nowait(qname=GHOST, timeout=500) or []:
                    uid = task['uid']
                    plan = st['plans'].get(uid) or {}
                    sim.sleep(plan.get('runtime', 0.0))
                    rc = plan.get('rc', 0)
                    st['ghost_seen'].setdefault(uid, []).append(
                        task['state'])
                    task['exit_code']    = rc
                    task['target_state'] = rps.DONE if rc == 0 else rps.FAILED
                    task['state']        = rps.TMGR_STAGING_OUTPUT_PENDING
                    task['$all']         = True
                    p.put([task], qname=E.SID)

        def driver():
            root = sim.data['tmp']
            net = N.net()
            w = E.build(sim, root, sc['layout'], scheduler=sc['sched'],
                        real_pilot=sc.get('real_pilot', False))
            st['w'] = w
            net.delay_max = sc['delay_max']
            net.bulk_max  = sc['bulk_max']
            sim.freeze('Idler')
            tmgr = w['tmgr']
            si = find_component(w, 'tmgr_staging_input')
            if si is not None and sc.get('mkdir_threshold'):
                si._mkdir_threshold = sc['mkdir_threshold']
                real_callout = si._stager.sh_callout

                def callout(url, cmd):
                    sim.probe('bulk_mkdir_tar')
                    return real_callout(url, cmd)
                si._stager.sh_callout = callout

            def cb(task, state):
                st['cb'].setdefault(task.uid, []).append(state)
            tmgr.register_callback(cb)
            pilot = w['pilot_doc']
            if w.get('pilot_obj') is not None:
                pilot = w['pilot_obj']

                def pstage(when):
                    for ps in sc.get('pstage', []):
                        if ps['when'] != when:
                            continue
                        with open('%s/%s' % (w['csbox'], ps['name']),
                                  'w') as f:
                            f.write(content_of('shared', ps['name']))
                        sd = ps['name'] if ps['form'] == 'bare' else \
                            {'source': 'client:///%s' % ps['name'],
                             'target': 'pilot:///%s' % ps['name'],
                             'action': rp.TRANSFER}
                        sim.probe('pilot_stage_in')
                        try:
                            pilot.stage_in(sd)
                        except K.SimKilled:
                            raise
                        except Exception as e:
                            sim.log('pilot_stage_in_failed', name=ps['name'],
                                    err=N.clean(repr(e)))
                            st['pstage_err'].append(ps['name'])
                pstage('before_add')
            if sc.get('ghost'):
                gdoc = copy.deepcopy(w['pilot_doc'])
                gdoc['uid'] = GHOST
                gdoc['pilot_sandbox'] = 'file://localhost%s/%s/' % (
                    w['ssbox'], GHOST)
                tmgr.add_pilots([pilot, gdoc])
                sim.spawn(ghost_agent, 'ghost.agent', group='driver')
            else:
                tmgr.add_pilots(pilot)
            if w.get('pilot_obj') is not None:
                pstage('after_add')

            # simulated processes also "write" the task's output files
            plans = st['plans']
            A.install_proc_plan(sim, plans)
            real_plan = sim.data['proc_plan']

            def plan(args, kwargs):
                p = real_plan(args, kwargs)
                uid = p.get('tag')
                for e in st['exp'].get(uid, []):
                    if e['kind'] == 'out' and \
                            (not e['missing'] or e.get('bad_url')) and \
                            not p.get('spawn_error'):
                        sb = spaces(w, uid)['task']
                        os.makedirs(sb, exist_ok=True)
                        with open('%s/%s' % (sb, e['name']), 'w') as f:
                            f.write(e['content'])
                return p
            sim.data['proc_plan'] = plan

            # fault hooks --------------------------------------------------------
            for op in sc['ops']:
                if op[1] == 'work_exc':
                    install_work_exc(sim, st, w, op[2], 'task.%06d' % op[3],
                                     op[4] if len(op) > 4 else 'entry')
                elif op[1] == 'io_fault':
                    install_io_fault(sim, st, op[2], 'task.%06d' % op[3])

            # application level node list (built as `Pilot.nodelist` does,
            # from the resource details the agent reports)
            nl = {'obj': None}

            def app_slots(d):
                from .agentsim import preplace
                if nl['obj'] is None:
                    lay = sc['layout']
                    rm  = w['pilot'].reg['rm.%s' % lay['rm'].lower()]

                    class _P(object):
                        _nodelist = None
                        resource_details = {
                            'node_list': copy.deepcopy(rm['node_list']),
                            'numa_domain_map': None}
                    nl['obj'] = rp.Pilot.nodelist.fget(_P())
                return preplace(nl['obj'], d)

            # event triggered cancels ------------------------------------------
            def canceller(op):
                lead, _, idxs, i, trig = op
                uid = 'task.%06d' % i
                hit = {'seen': False}

                def hook(ev):
                    if not hit['seen'] and ev['kind'] == 'proc_spawn' and \
                            ev.get('tag') == uid:
                        hit['seen'] = True
                sim.listeners.append(hook)

                def body():
                    sim.block(lambda: hit['seen'], 60.0, what='cancel_on')
                    if not hit['seen']:
                        return
                    sim.sleep(max(0.0, sc['tasks'][i]['runtime'] - lead))
                    uids = ['task.%06d' % k for k in idxs
                            if 'task.%06d' % k in st['uids']]
                    if not uids:
                        return
                    sim.fault('cancel')
                    sim.fault('cancel_on:%s' % trig)
                    for u in uids:
                        st['cancel'].add(u)
                        st['cancel_at'].setdefault(u, len(sim.events))
                        st['cancel_t'].setdefault(u, sim.now)
                    tmgr.cancel_tasks(uids)
                with C.group('app'):
                    P.Thread(target=body, name='app.cancel.%d' % i).start()

            for op in sc['ops']:
                if op[1] == 'cancel_on':
                    canceller(op)

            # timeline -----------------------------------------------------------
            tl = list()
            for i, t in enumerate(sc['tasks']):
                tl.append((t['at'], 0, 'task', i))
            for j, op in enumerate(sc['ops']):
                if op[1] in ('cancel', 'partition', 'named_env'):
                    tl.append((op[0], 1, 'op', j))
            tl.sort()
            t0 = sim.now
            batch = list()

            def flush():
                if batch:
                    tds = [b[1] for b in batch]
                    tasks = tmgr.submit_tasks(tds)
                    for (i, _), task in zip(batch, tasks):
                        st['tasks'].append(task)
                        st['submitted_at'][task.uid] = sim.now
                    del batch[:]

            last = None
            for tt, _, kind, idx in tl:
                if last is not None and tt != last:
                    flush()
                last = tt
                dt = t0 + tt - sim.now
                if dt > 0:
                    sim.sleep(dt)
                if kind == 'task':
                    t = sc['tasks'][idx]
                    uid = 'task.%06d' % idx
                    ins, outs, exp = make_directives(w, uid, t)
                    d = dict(t['descr'])
                    d['uid'] = uid
                    if sc.get('ghost') == 'early':
                        d['pilot'] = GHOST if t.get('ghost') else E.PID
                    if t.get('preplaced'):
                        slots = app_slots(d)
                        if slots:
                            sim.probe('app_placement')
                            d['slots'] = slots
                    if ins : d['input_staging']  = ins
                    if outs: d['output_staging'] = outs
                    st['exp'][uid]  = exp
                    st['spec'][uid] = t
                    plans[uid] = {'runtime': t['runtime'], 'rc': t['rc'],
                                  'spawn_error': t.get('spawn_error', False)}
                    st['uids'].append(uid)
                    batch.append((idx, rp.TaskDescription(d)))
                elif sc['ops'][idx][1] == 'partition':
                    flush()
                    op = sc['ops'][idx]
                    sim.fault('partition')
                    net.partitions = {op[2]: sim.now + op[3]}
                elif sc['ops'][idx][1] == 'named_env':
                    flush()
                    preg = w['pilot'].reg
                    with C.group('agent_0'):
                        epub = N.Publisher(rpc.CONTROL_PUBSUB, url=preg[
                            'bridges.%s' % rpc.CONTROL_PUBSUB]['addr_pub'])
                    sim.probe('named_env_registered')
                    # (what the agent's `_prepare_env` leaves behind before
                    # it announces the environment)
                    os.makedirs('%s/env' % w['psbox'], exist_ok=True)
                    with open('%s/env/rp_named_env.%s.env' % (
                            w['psbox'], sc['ops'][idx][2]), 'w') as f:
                        f.write("export RP_NAMED_ENV='%s'\n"
                                % sc['ops'][idx][2])
                    epub.put(rpc.CONTROL_PUBSUB, {
                        'cmd': 'register_named_env',
                        'arg': {'env_name': sc['ops'][idx][2]}})
                else:
                    flush()
                    op = sc['ops'][idx]
                    uids = ['task.%06d' % i for i in op[2]
                            if 'task.%06d' % i in st['uids']]
                    if uids:
                        sim.fault('cancel')
                        for u in uids:
                            st['cancel'].add(u)
                            st['cancel_at'][u] = len(sim.events)
                            st['cancel_t'][u] = sim.now
                        tmgr.cancel_tasks(uids)
            flush()

            # bounded liveness: every task final within 60 virtual seconds
            limit = sim.now + 60.0
            while sim.now < limit:
                sim.sleep(0.5)
                for task in st['tasks']:
                    s = st['samples'].setdefault(task.uid, [])
                    if not s or s[-1] != task.state:
                        s.append(task.state)
                if all(t.state in FINAL for t in st['tasks']):
                    break
            sim.sleep(3.0)
            for task in st['tasks']:
                s = st['samples'].setdefault(task.uid, [])
                if not s or s[-1] != task.state:
                    s.append(task.state)

        def final(sim):
            oracle_c05(sim, sc, st)
            oracle_c11(sim, sc, st)
            oracle_c08(sim, sc, st)

        cfg['final'] = final
        return driver

    res = C.run_world(seed, build, trace=trace, tmp=True,
                      stall_prob=sc.get('stall', 0.0),
                      max_steps=300000 if tier == 'quick' else 900000)
    import tempfile
    tempfile.tempdir = None
    return res


# ------------------------------------------------------------------------------
# fault injection
#
def find_component(w, kind):
    if kind == 'agent_0':
        return w['agent0']
    for side in (w['client'], w['pilot']):
        for uid, c in side.comps.items():
            if uid.startswith(kind):
                return c
    return None


WORK_STATE = {'tmgr_scheduling'     : rps.TMGR_SCHEDULING,
              'tmgr_staging_input' : rps.TMGR_STAGING_INPUT,
              'tmgr_staging_output': rps.TMGR_STAGING_OUTPUT,
              'agent_staging_input': rps.AGENT_STAGING_INPUT,
              'agent_scheduling'   : rps.AGENT_SCHEDULING,
              'agent_executing'    : rps.AGENT_EXECUTING,
              'agent_staging_output': rps.AGENT_STAGING_OUTPUT}


def install_work_exc(sim, st, w, kind, uid, when='entry'):
    '''the work routine of one component raises for the bulk containing
    `uid` (once) - on entry, or (`late`) after it has advanced the bulk into
    the component's working state, as nearly all work routines do first'''
    comp = find_component(w, kind)
    if comp is None:
        return
    state = {'armed': True}
    for s, worker in list(comp._workers.items()):
        def wrapped(things, _worker=worker):
            if state['armed'] and any(t.get('uid') == uid for t in things):
                state['armed'] = False
                sim.fault('work_exc')
                sim.log('fault_work_exc', comp=kind, uid=uid, when=when,
                        bulk=[t['uid'] for t in things])
                for t in things:
                    st['exc_hit'].add(t['uid'])
                if when == 'late' and kind in WORK_STATE:
                    sim.fault('work_exc_late')
                    comp.advance(things, WORK_STATE[kind], publish=True,
                                 push=False)
                raise RuntimeError('injected work error in %s' % kind)
            return _worker(things)
        comp._workers[s] = wrapped


def install_io_fault(sim, st, what, uid):
    '''one file system call fails while handling `uid`'''
    state = {'armed': True}

    def hook(name, a, kw):
        if not state['armed']:
            return None
        text = ' '.join(str(x) for x in a)
        if uid not in text:
            return None
        if what == 'script' and name in ('open', 'ru_open') and \
                ('.exec.sh' in text or '.launch.sh' in text):
            pass
        elif what == 'mkdir' and name == 'rec_makedir':
            pass
        elif what in ('link', 'move') and name == what:
            pass
        else:
            return None
        state['armed'] = False
        sim.fault('io_%s' % what)
        sim.log('fault_io', what=what, call=name, uid=uid)
        st['io_hit'].add(uid)
        return OSError(28, 'No space left on device (injected)')
    prev = sim.data.get('os_fault')

    def chain(name, a, kw):
        e = hook(name, a, kw)
        if e is None and prev:
            e = prev(name, a, kw)
        return e
    sim.data['os_fault'] = chain
    # os.link / shutil.move in the staging helper module
    import radical.pilot.utils.staging_helper as sh
    if what in ('link', 'move') and not getattr(sh, '_dst_wrapped', False):
        real_link, real_move = sh.os.link, sh.shutil.move

        class _OS(object):
            def __getattr__(self, k):
                return getattr(os, k)

            @staticmethod
            def link(src, tgt):
                h = K.cur().data.get('os_fault')
                e = h('link', (src, tgt), {}) if h else None
                if e:
                    raise e
                return real_link(src, tgt)

        class _SH(object):
            def __getattr__(self, k):
                import shutil
                return getattr(shutil, k)

            @staticmethod
            def move(src, tgt):
                h = K.cur().data.get('os_fault')
                e = h('move', (src, tgt), {}) if h else None
                if e:
                    raise e
                return real_move(src, tgt)
        sh.os, sh.shutil = _OS(), _SH()
        sh._dst_wrapped = True


# ------------------------------------------------------------------------------
# oracles
#
def staging_problem(st, uid, kind):
    '''a directive of this task cannot be carried out (missing source)'''
    for e in st['exp'].get(uid, []):
        if e['kind'] == kind and e['missing']:
            return True
    return False


def no_launcher(sc, spec):
    return spec['descr'].get('ranks', 1) > 1 and \
        'MPIRUN' not in sc['layout']['lms']


def oracle_c05(sim, sc, st):
    w = st['w']
    for task in st['tasks']:
        uid  = task.uid
        spec = st['spec'][uid]
        s    = task.state
        cbs  = st['cb'].get(uid, [])
        fin_cbs = [x for x in cbs if x in FINAL]
        det = {'uid': uid, 'state': s, 'exit_code': task.exit_code,
               'exception': str(task.exception)[:120],
               'rc': spec['rc'], 'cbs_final': fin_cbs,
               'cancel': uid in st['cancel'],
               'timeout': spec['descr'].get('timeout'),
               'exc_hit': uid in st['exc_hit'], 'io_hit': uid in st['io_hit'],
               'sd_missing': [e['name'] for e in st['exp'].get(uid, [])
                              if e['missing']]}
        site = site_of(sc, st, uid)
        if s not in FINAL:
            # root cause class: starving behind tasks which were failed by an
            # injected work routine error in the executor (slots never freed)
            # (the client side backfilling scheduler in turn holds tasks back
            # while the pilot's usage figure does not drop: the same tasks
            # which starve in the agent scheduler keep it up)
            waiting_in = [rps.AGENT_SCHEDULING, rps.AGENT_SCHEDULING_PENDING]
            if sc.get('sched') == 'backfilling':
                waiting_in.append(rps.TMGR_SCHEDULING)
            for op in sc['ops']:
                if op[1] == 'work_exc' and st['exc_hit'] and \
                        uid not in st['exc_hit'] and s in waiting_in:
                    site = 'starved_after_work_exc:%s' % op[2]
            sim.violation('C05', 'no_final', site, det)
            continue
        if len(fin_cbs) > 1 or (fin_cbs and fin_cbs[-1] != s):
            sim.violation('C05', 'two_finals', site, det)
        smp = st['samples'].get(uid, [])
        for a, b in zip(smp, smp[1:]):
            if a in FINAL and b != a:
                sim.violation('C05', 'two_finals', site,
                              dict(det, samples=smp))
                break
        cancel_ok = uid in st['cancel'] or bool(spec['descr'].get('timeout'))
        bad = list()
        if spec['rc'] != 0           : bad.append('exit_nonzero')
        if spec.get('spawn_error')   : bad.append('spawn_error')
        if no_launcher(sc, spec)     : bad.append('no_launcher')
        if uid in st['exc_hit']      : bad.append('work_exc')
        if uid in st['io_hit']       : bad.append('io_fault')
        if staging_problem(st, uid, 'in'): bad.append('stage_in')
        ran_ok = not bad
        if ran_ok and staging_problem(st, uid, 'out'):
            bad.append('stage_out')
        det['bad'] = bad
        if s == rps.DONE and bad:
            # a task whose cancel/timeout raced may legitimately not have
            # met the problem at all
            sim.violation('C05', 'false_done', site, det)
        elif s == rps.FAILED and not bad and not cancel_ok:
            sim.violation('C05', 'false_failed', site, det)
        elif s == rps.FAILED and not bad and cancel_ok:
            sim.violation('C05', 'false_failed', site, det)
        elif s == rps.CANCELED and not cancel_ok:
            sim.violation('C05', 'false_canceled', site, det)
        if s == rps.FAILED and task.exit_code in (None, 0) and \
                not task.exception:
            sim.violation('C05', 'failed_without_reason', site, det)
    # an error while handling one task never takes down the component
    for kind in COMPONENTS:
        comp = find_component(w, kind)
        if comp is None or comp._thread is None:
            continue
        if not comp._thread.is_alive():
            sim.violation('C05', 'component_died', kind, {})
    for e in sim.events:
        if e['kind'] == 'thread_error' and 'driver' not in e.get('name', '') \
                and 'app' not in e.get('name', ''):
            sim.violation('C05', 'component_died', e.get('name'),
                          {'err': e.get('err')})
            break


def oracle_c08(sim, sc, st):
    '''a cancel request issued by the application (TaskManager.cancel_tasks)
    reaches the pilot and stops the named task's process'''
    hold = sum(op[3] for op in sc['ops'] if op[1] == 'partition')
    for uid in sorted(st['cancel']):
        t_req = st['cancel_t'].get(uid)
        spawn = exit_ = None
        for ev in sim.events:
            if ev.get('tag') == uid and ev['kind'] == 'proc_spawn':
                spawn = ev
            if ev.get('tag') == uid and ev['kind'] == 'proc_exit':
                exit_ = ev
        if t_req is None or spawn is None or exit_ is None:
            continue
        t_spawn = spawn['t'] + sim.t0
        t_exit  = exit_['t'] + sim.t0
        if uid in st['exc_hit'] or uid in st['io_hit']:
            continue
        if t_spawn < t_req and exit_.get('why') == 'time' and \
                t_exit - t_req > 3.0 + hold:
            sim.violation('C08', 'named_not_canceled', 'e2e',
                          {'uid': uid, 'ran_on_for': round(t_exit - t_req, 2),
                           'state': [t.state for t in st['tasks']
                                     if t.uid == uid]})


def site_of(sc, st, uid):
    spec = st['spec'][uid]
    tags = list()
    if uid in st['exc_hit']:
        for op in sc['ops']:
            if op[1] == 'work_exc':
                tags.append('work_exc:%s' % op[2])
    if uid in st['io_hit']:
        for op in sc['ops']:
            if op[1] == 'io_fault':
                tags.append('io:%s' % op[2])
    if spec.get('spawn_error'):
        tags.append('spawn_error')
    if spec['rc']:
        tags.append('exit_nonzero')
    if no_launcher(sc, spec):
        tags.append('no_launcher')
    for e in st['exp'].get(uid, []):
        if e['missing']:
            tags.append('sd_missing:%s:%s' % (e['kind'], e['action']))
            break
    if uid in st['cancel']:
        tags.append('cancel')
    if spec['descr'].get('timeout'):
        tags.append('timeout')
    return '+'.join(tags) or 'plain'


def oracle_c11(sim, sc, st):
    for task in st['tasks']:
        uid  = task.uid
        spec = st['spec'][uid]
        s    = task.state
        if s not in FINAL:
            continue
        cbs = st['cb'].get(uid, [])
        passed_in = rps.AGENT_SCHEDULING_PENDING in cbs or s == rps.DONE
        soe = bool(spec['descr'].get('stage_on_error'))
        for e in st['exp'].get(uid, []):
            site = '%s:%s' % (e['kind'], e['action'])
            det = {'uid': uid, 'state': s, 'path': e['path'],
                   'name': e['name'], 'missing': e['missing']}
            if e['kind'] == 'in':
                if e['missing']:
                    # cannot be carried out: must fail this task
                    if s == rps.DONE:
                        sim.violation('C11', 'fault_not_contained', site,
                                      det)
                    continue
                if not passed_in:
                    continue
                if uid in st['io_hit'] or uid in st['exc_hit']:
                    continue
                path = e['path']
                if 'gpath' in e and task.pilot == GHOST:
                    path = det['path'] = e['gpath']
                got = read(path)
                if got is None:
                    sim.violation('C11', 'in_missing', site, det)
                elif got != e['content']:
                    sim.violation('C11', 'in_wrong_content', site,
                                  dict(det, got=got[:60]))
            else:
                if e['missing']:
                    if s == rps.DONE:
                        sim.violation('C11', 'fault_not_contained', site,
                                      det)
                    continue
                got = read(e['path'])
                if s == rps.DONE:
                    if got is None:
                        sim.violation('C11', 'out_missing', site, det)
                    elif got != e['content']:
                        sim.violation('C11', 'out_wrong_content', site,
                                      dict(det, got=got[:60]))
                elif s == rps.FAILED and not soe and got is not None and \
                        failed_before_output(sc, st, uid):
                    sim.violation('C11', 'out_on_failure', site, det)
                elif s == rps.CANCELED and not soe and got is not None and \
                        killed_while_running(sim, uid) and \
                        e['action'] != rp.TRANSFER:
                    # the process was killed by the cancel request: the
                    # executor handed the task on as CANCELED, its output
                    # directives are not to be carried out
                    sim.violation('C11', 'out_on_failure', site + ':canceled',
                                  det)
    # a directive which cannot be carried out fails that task only: tasks
    # without any problem must be DONE
    for task in st['tasks']:
        uid  = task.uid
        spec = st['spec'][uid]
        bad = spec['rc'] or spec.get('spawn_error') or \
            no_launcher(sc, spec) or uid in st['exc_hit'] or \
            uid in st['io_hit'] or uid in st['cancel'] or \
            spec['descr'].get('timeout') or \
            any(e['missing'] for e in st['exp'].get(uid, []))
        cbs = st['cb'].get(uid, [])
        if not bad and task.state == rps.FAILED and \
                any(e['kind'] == 'in' for e in st['exp'].get(uid, [])) and \
                rps.AGENT_SCHEDULING_PENDING not in cbs and \
                rps.AGENT_EXECUTING not in cbs:
            # nothing is wrong with this task or its directives, no fault was
            # injected into its handling, and it failed before it had passed
            # input staging: a directive which can be carried out was not
            sim.violation('C11', 'in_not_carried_out', 'task',
                          {'uid': uid, 'state': task.state,
                           'pstage_err': st['pstage_err'],
                           'exception': N.clean(str(task.exception))[:160]})
        elif not bad and task.state in (rps.FAILED, rps.CANCELED) and \
                any(e['missing'] for u in st['exp'] for e in st['exp'][u]):
            sim.violation('C11', 'fault_spread', 'other_task',
                          {'uid': uid, 'state': task.state,
                           'exception': str(task.exception)[:120]})


def killed_while_running(sim, uid):
    for ev in sim.events:
        if ev['kind'] == 'proc_exit' and ev.get('tag') == uid:
            return ev.get('why') in ('signal', 'sigkill')
    return False


def failed_before_output(sc, st, uid):
    '''the task failed for a reason which precedes output staging'''
    spec = st['spec'][uid]
    return bool(spec['rc'] or spec.get('spawn_error') or
                no_launcher(sc, spec) or staging_problem(st, uid, 'in'))


def read(path):
    try:
        with open(path) as f:
            return f.read()
    except OSError:
        return None


def make_check(prop, knobs, nontrivial):

    def gen(rng, tier):
        return gen_scenario(rng, tier, knobs)

    def run_(seed, sc, trace=None, tier='quick'):
        res = run(seed, sc, trace, tier)
        res['violations'] = [x for x in res['violations']
                             if x['property'] == prop]
        if res['status'] == 'violation' and not res['violations']:
            res['status'] = 'ok'
        res['nontrivial'] = bool(nontrivial(sc, res))
        return res
    return gen, run_


def shrink(sc):
    out = list()
    tasks, ops = sc['tasks'], sc['ops']
    n = len(tasks)

    def without(drop):
        keep = [i for i in range(n) if i not in drop]
        remap = {o: k for k, o in enumerate(keep)}
        c = dict(sc)
        c['tasks'] = [tasks[i] for i in keep]
        nops = list()
        for op in ops:
            if op[1] == 'cancel':
                idx = [remap[i] for i in op[2] if i in remap]
                if idx:
                    nops.append([op[0], 'cancel', idx])
            elif op[1] in ('work_exc', 'io_fault'):
                if op[3] in remap:
                    nops.append([op[0], op[1], op[2], remap[op[3]]] +
                                list(op[4:]))
            elif op[1] == 'cancel_on':
                if op[3] in remap:
                    nops.append([op[0], op[1], [remap[op[3]]], remap[op[3]],
                                 op[4]])
            else:
                nops.append(op)
        c['ops'] = nops
        return c
    for i in range(n):
        if n > 1:
            out.append(without({i}))
    for j in range(len(ops)):
        c = dict(sc); c['ops'] = ops[:j] + ops[j + 1:]; out.append(c)
    for i, t in enumerate(tasks):
        for key in ('ins', 'outs'):
            for k in range(len(t[key])):
                c = dict(sc); nt = dict(t)
                nt[key] = t[key][:k] + t[key][k + 1:]
                c['tasks'] = tasks[:i] + [nt] + tasks[i + 1:]
                out.append(c)
    for k, val in (('delay_max', 0.0), ('stall', 0.0), ('bulk_max', 1024)):
        if sc.get(k) != val:
            c = dict(sc); c[k] = val; out.append(c)
    return out


INFO = {
    'real': ['TaskManager (submit, cancel, state callbacks) + Task',
             'tmgr scheduler (RoundRobin/Backfilling)', 'tmgr staging_input '
             'Default (incl. tarball creation)', 'tmgr staging_output Default',
             'Session.crosswire_pubsub forwarders on both sides',
             'Agent_0._proxy_input_cb/_proxy_output_cb', 'agent staging_input '
             '/ scheduler (parent + forked child) / Popen executor / '
             'staging_output', 'StagingHelper_Local (real cp -r / os.link / '
             'shutil.move)', 'staging_directives.expand_* / complete_url',
             'Session sandbox getters', 'BaseComponent.work_cb/advance',
             'in 35% of the runs a real PilotManager + Pilot (submit_pilots, '
             'Pilot.stage_in before/after add_pilots, Pilot.as_dict, '
             'PilotManager._pilot_staging_input)'],
    'stub': ['ZMQ bridges, proxy channels and registry (simulated)',
             'pilot launching (driver adds an ACTIVE pilot dict)', 'in 30% '
             'of the runs a second pilot whose agent is played by the driver '
             '(tasks early bound or bound by the tmgr scheduler; its tasks '
             'only carry client side transfers)', 'task '
             'processes (SimProc; the harness writes the declared output '
             'files at spawn)', 'Agent_0 built without constructor (no '
             'services, sub-agents, lifetime)', 'logger/profiler'],
}
