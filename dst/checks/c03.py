'''C03 - released resources come back exactly once and completely'''
from . import agentsim as S

PROP  = 'C03'
KNOBS = {'max_tasks': 10, 'cancel_prob': 0.6, 'preplaced_share': 0.12,
         'fail_share': 0.2, 'spawn_fail_share': 0.1, 'timeout_share': 0.15,
         'racy_share': 0.3, 'grace_share': 0.3, 'preempt': 0.02}


def _nontrivial(sc, res):
    if sc.get('focus') == 'nodelist':
        return res.get('n_grants', 0) >= 2
    return bool(sc['ops']) or any(t['rc'] or t.get('spawn_error') or
                                  t['descr'].get('timeout')
                                  for t in sc['tasks'])


gen, run = S.make_check(PROP, ['full', 'full', 'sched', 'nodelist', 'jsrun'], KNOBS,
                        _nontrivial)
shrink = S.shrink
SEEDS  = {'quick': 1200, 'thorough': 40000}
BUDGET = {'quick': 240, 'thorough': 3000}
INFO   = dict(S.INFO)
INFO['rule'] = ('full agent with every way a task can end (exit 0 / non-zero, '
                'cancel before/after spawn and at exit, timeout, spawn error, '
                'process exit racing the kill), line-level pre-emption in '
                'popen.py/base.py; non-trivial = >=1 abnormal ending or '
                'cancel; distinct = distinct event-log digest')
