'''
C09 - launch commands enact the placement they were given.

World A (full agent) with a randomised launcher configuration per run: the
real executor asks the real ResourceManager.find_launcher for a launch method
and the real <LM>.get_launch_cmds builds the command for the slots the real
scheduler chose.  A spy records (task, slots, command, referenced files); a
small per-launcher parser (reference) yields process count and node multiset.
The schedule decides in which order tasks reach the one launcher instance
("every sequence of earlier command generations").
'''

import os
import re
import copy

from . import agentsim as S
from ..worlds import agent as A
from ..       import kernel as K
from ..       import net    as N

PROP = 'C09'

LMS = ['MPIRUN', 'MPIRUN_MPT', 'MPIRUN_RSH', 'MPIRUN_CCMRUN', 'MPIRUN_DPLACE',
       'MPIEXEC', 'MPIEXEC', 'MPIEXEC', 'MPIEXEC_MPT', 'SRUN', 'SRUN', 'APRUN',
       'IBRUN', 'SSH', 'RSH', 'CCMRUN', 'JSRUN', 'JSRUN_ERF', 'PRTE']


def gen(rng, tier):
    knobs = {'max_tasks': 8, 'min_tasks': 2, 'cancel_prob': 0.0,
             'fail_share': 0.0, 'tag_share': 0.05, 'stall': False}
    sc = S.gen_scenario(rng, tier, 'full', knobs)
    lay = sc['layout']
    lay['rm'] = 'SLURM'                    # distinct node names
    lay['spawner'] = 'POPEN'
    lay['agent_nodes'] = 0
    lm = rng.choice(LMS)
    lay['lms'] = rng.choice([['FORK', lm], [lm], [lm, 'FORK']])
    lay['mpi_flavor'] = rng.choice(['OMPI', 'OMPI', 'HYDRA', 'PALS',
                                    'SPECTRUM'])
    lay['use_rf'] = rng.random() < 0.3
    lay['use_hf'] = rng.random() < 0.3
    lay['srun_version'] = rng.choice(['17.11', '22.05'])
    if lm == 'IBRUN' and rng.random() < 0.6:
        # IBRUN with the documented `tasks_per_node` option: one host list
        # entry per core; single-threaded ranks
        lay['ibrun_tpn'] = lay['cpn']
        for t in sc['tasks']:
            t['descr']['cores_per_rank'] = 1
    if rng.random() < 0.15:
        # many small nodes: host list vs. host file thresholds (> 42 hosts)
        lay['nodes'] = rng.randint(44, 50)
        lay['cpn']   = rng.choice([1, 2])
        lay['gpn']   = 0
        lay['blocked_cores'] = []
        lay['blocked_gpus']  = []
        for t in sc['tasks'][:2]:
            t['descr']['ranks'] = rng.randint(43, lay['nodes'])
            t['descr']['cores_per_rank'] = 1
            t['descr']['gpus_per_rank']  = 0
            t['descr'].pop('ranks_per_node', None)
            t['descr'].pop('lfs_per_rank', None)
            t['descr'].pop('mem_per_rank', None)
    if rng.random() < 0.35:
        # the agent runs on one of the allocation's nodes; with unpadded
        # names some node names are prefixes of others
        lay['short_names'] = True
        if rng.random() < 0.6:
            lay['nodes'] = max(lay['nodes'], rng.randint(10, 13))
            lay['cpn']   = rng.choice([1, 2])
            lay['blocked_cores'] = []
        lay['hostname'] = 'n%d' % rng.randint(1, lay['nodes'])
    for t in sc['tasks']:
        t['preplaced'] = False
        t['runtime'] = min(t['runtime'], 0.5)
    if rng.random() < 0.2:
        # all placements supplied by the application, ranks listed in an
        # arbitrary order (a node may be revisited later in the rank order)
        for t in sc['tasks']:
            t['preplaced'] = True
            t['at'] = 0.0
            t['shuffle'] = rng.randint(1, 10 ** 6)
            t['descr'].pop('ranks_per_node', None)
            t['descr'].pop('tags', None)
            g = t['descr'].get('gpus_per_rank') or 0
            if g != int(g):
                t['descr']['gpus_per_rank'] = 0
    if lm == 'PRTE':
        # PRRTE: one DVM per partition; the scheduler of this tree assigns no
        # partition (the launcher then refuses by raising), application made
        # placements name the partition which holds their nodes
        lay['lms'] = [lm]
        lay['prte_dvms'] = rng.choice([1, 1, 2, 3])
        lay['agent_nodes'] = 0
        app = rng.random() < 0.8
        for t in sc['tasks']:
            t['preplaced'] = app
            if app:
                t['at'] = 0.0
                if rng.random() < 0.5:
                    t['shuffle'] = rng.randint(1, 10 ** 6)
                t['descr'].pop('ranks_per_node', None)
                t['descr'].pop('tags', None)
                g = t['descr'].get('gpus_per_rank') or 0
                if g != int(g):
                    t['descr']['gpus_per_rank'] = 0
    if lm.startswith('JSRUN'):
        # resource-set based launcher: served by the ContinuousJsrun
        # scheduler only (its own slot format), placements by the scheduler
        # (as in the Summit configuration both flavours are configured, the
        # first in the order serves the tasks)
        lay['lms'] = [lm] if lm == 'JSRUN' else [lm, 'JSRUN']
        sc['jsrun'] = True
        lay.pop('ibrun_tpn', None)
        app = rng.random() < 0.25
        for t in sc['tasks']:
            t['preplaced'] = False
            t.pop('shuffle', None)
            d = t['descr']
            if app:
                # placements made by the application, in the resource set
                # format this scheduler / launcher pair works with: one set
                # per rank, or (explicit resource file only - sets by numbers
                # describe one shape) one set per visited node
                t['preplaced'] = True
                t['at'] = 0.0
                t['rs_group'] = rng.choice(['rank', 'node']) \
                    if lm == 'JSRUN_ERF' else 'rank'
                d['gpus_per_rank'] = 0
                for k in ('ranks_per_node', 'tags', 'lfs_per_rank',
                          'mem_per_rank'):
                    d.pop(k, None)
            elif lay['gpn'] and d.get('ranks', 1) > 1 and rng.random() < 0.4:
                d['gpus_per_rank'] = rng.choice([0.5, 0.5, 0.25])
    sc['c09'] = True
    sc['preempt'] = 0.0
    sc['stale_files'] = rng.random() < (0.5 if lay['nodes'] > 42 else 0.15)
    return sc


# ------------------------------------------------------------------------------
# reference parsers
#
def _read(path):
    try:
        with open(path) as f:
            return f.read()
    except OSError:
        return None


def parse(name, cmd, files):
    '''-> dict(nprocs=, nodes=[...] or None, node_set=set or None,
               pins=[[cores]] or None)'''
    tok = cmd.split()
    out = {'nprocs': None, 'nodes': None, 'node_set': None, 'pins': None}
    n = name.upper()

    def opt(flag, sep=None):
        for i, t in enumerate(tok):
            if t == flag and i + 1 < len(tok):
                return tok[i + 1]
            if sep and t.startswith(flag + sep):
                return t[len(flag) + 1:]
        return None

    if n == 'FORK':
        # no node is named: the process runs where the agent runs
        out['nprocs'] = 1
        out['nodes']  = [files.get('__hostname__', 'localhost')]
    elif n.startswith('MPIRUN'):
        np_ = int(opt('-np'))
        hosts = None
        if opt('-host'):
            hosts = opt('-host').split(',')
        elif opt('-hostfile') or opt('-file'):
            txt = files.get(opt('-hostfile') or opt('-file')) or ''
            hosts = [l.split()[0] for l in txt.splitlines() if l.strip()]
        else:
            # mpt: host list right after the command
            for i, t in enumerate(tok):
                if t.endswith('mpirun') and i + 1 < len(tok) and \
                        not tok[i + 1].startswith('-'):
                    hosts = tok[i + 1].split(',')
        if 'MPT' in n:
            out['nprocs'] = np_ * len(hosts or [])
        else:
            out['nprocs'] = np_
        out['nodes'] = hosts
    elif n.startswith('MPIEXEC'):
        out['nprocs'] = int(opt('-np'))
        if opt('-rf'):
            txt = files.get(opt('-rf')) or ''
            nodes, pins = list(), list()
            for l in txt.splitlines():
                m = re.match(r'rank (\d+)=(\S+) slots=(\S*)', l)
                if m:
                    nodes.append(m.group(2))
                    pins.append([int(x) for x in m.group(3).split(',') if x])
            out['nodes'], out['pins'] = nodes, pins
        elif opt('--hostfile') or opt('-f'):
            txt = files.get(opt('--hostfile') or opt('-f')) or ''
            nodes, plain = list(), list()
            for l in txt.splitlines():
                l = l.strip()
                if not l:
                    continue
                m = re.match(r'(\S+?)(?: slots=|:)(\d+)$', l)
                if m:
                    nodes += [m.group(1)] * int(m.group(2))
                else:
                    plain.append(l)
            if plain:
                out['node_set'] = set(plain)
                # hosts without a process count: `--ppn P` fills P processes
                # per host in file order (PALS), otherwise the processes go
                # round-robin, one per host (Hydra)
                ppn = opt('--ppn')
                if ppn:
                    out['nodes'] = [h for h in plain
                                    for _ in range(int(ppn))][:out['nprocs']]
                else:
                    out['nodes'] = [plain[i % len(plain)]
                                    for i in range(out['nprocs'])]
                bind = opt('--cpu-bind')
                if bind and bind.startswith('list:'):
                    pins = list()
                    for ent in bind[5:].split(':'):
                        one = list()
                        for part in ent.split(','):
                            if '-' in part:
                                a, b = part.split('-')
                                one += list(range(int(a), int(b) + 1))
                            elif part:
                                one.append(int(part))
                        pins.append(one)
                    out['pins'] = pins
            else:
                out['nodes'] = nodes
    elif n == 'SRUN':
        v = opt('--ntasks') or opt('--ntasks', '=')
        out['nprocs'] = int(v)
        nl = opt('--nodelist', '=')
        nf = opt('--nodefile', '=')
        names = None
        if nl:
            names = nl.split(',')
        elif nf:
            names = (files.get(nf) or '').strip().split(',')
        if names is not None:
            out['node_set'] = set(names)
            # every node is named once, and `--nodes` counts them
            out['node_dups'] = len(names) - len(set(names))
            if opt('--nodes') is not None:
                out['n_nodes'] = int(opt('--nodes'))
    elif n == 'IBRUN':
        # `ibrun -n N -o O`: the host list names every node of the allocation
        # IBRUN_TASKS_PER_NODE times (allocation order); the N processes go
        # to entries O .. O+N-1 of that list
        out['nprocs'] = int(opt('-n'))
        m = re.search(r'IBRUN_TASKS_PER_NODE=(\d+)', cmd)
        alloc = files.get('__nodes__')
        if m and alloc and opt('-o') is not None:
            tpn, off = int(m.group(1)), int(opt('-o'))
            hostlist = [name_ for name_ in alloc for _ in range(tpn)]
            out['nodes'] = hostlist[off:off + out['nprocs']]
            out['tpn']   = tpn
    elif n.startswith('JSRUN'):
        erf = opt('--erf_input')
        names = files.get('__index__') or {}
        if erf:
            # explicit resource file: one line per resource set,
            #   rank: 0,1 : { host: 1; cpu: {0,1},{2,3}; gpu: {0} }
            nodes, pins, gpins, ids = list(), list(), list(), list()
            for l in (files.get(erf) or '').splitlines():
                m = re.match(r'rank: ([\d,]+) : \{ host: (\S+); cpu: (.*?)'
                             r'(?:; gpu: \{([\d,]*)\})? \}$', l.strip())
                if not m:
                    continue
                cpus = re.findall(r'\{([\d,]*)\}', m.group(3))
                gset = [int(x) for x in (m.group(4) or '').split(',') if x]
                for i, r in enumerate(m.group(1).split(',')):
                    ids.append(int(r))
                    nodes.append(names.get(m.group(2), 'index:' + m.group(2)))
                    pins.append([int(x) for x in cpus[i].split(',') if x]
                                if i < len(cpus) else [])
                    gpins.append(gset)
            out['nprocs'] = len(ids)
            out['rank_ids'] = ids
            out['nodes'], out['pins'], out['gpins'] = nodes, pins, gpins
        else:
            # resource sets by numbers: -n RS, -a ranks / RS, -c physical
            # cores / RS, -g GPUs / RS (jsrun picks the nodes itself)
            m = re.search(r' -n(\d+) -a(\d+) -c(\d+) -g(\d+)', cmd)
            n_rs, a, c, g = [int(x) for x in m.groups()]
            out['nprocs'] = n_rs * a
            out['rs'] = {'n': n_rs, 'a': a, 'c': c, 'g': g}
    elif n == 'PRTE':
        # prun --dvm-uri "<uri>" --np N ... --host node:count,...
        out['nprocs'] = int(opt('--np'))
        nodes = list()
        for ent in (opt('--host') or '').split(','):
            if ent:
                name_, _, cnt = ent.rpartition(':')
                nodes += [name_] * int(cnt)
        out['nodes'] = nodes
        out['dvm_uri'] = (opt('--dvm-uri') or '').strip('"')
    elif n in ('APRUN', 'CCMRUN'):
        out['nprocs'] = int(opt('-n'))
    elif n in ('SSH', 'RSH'):
        out['nprocs'] = 1
        out['nodes'] = [tok[1]]
    return out


def referenced_files(cmd):
    return [t.split('=', 1)[-1] for t in cmd.split()
            if re.search(r'\.(hosts|rf|hf|nodes|rs)$', t)]


# ------------------------------------------------------------------------------
#
def install_spy(sim, st):
    '''wrap get_launch_cmds of every launcher of the executor's RM'''
    comp = None
    for uid, c in st['side'].comps.items():
        if 'agent_executing' in uid:
            comp = c
    rm = comp._rm
    sc_ = st.get('sc') or sim.data.get('c09_sc') or {}
    st['lm_records'] = list()
    import radical.pilot.agent as rpa
    import radical.utils as ru

    for name, lm in rm._launchers.items():
        real = lm.get_launch_cmds
        # the configuration the launcher was created with (a fresh instance
        # must not inherit what earlier tasks left in the live one)
        pristine = copy.deepcopy(lm._lm_cfg.as_dict()
                                 if hasattr(lm._lm_cfg, 'as_dict')
                                 else dict(lm._lm_cfg))

        def spy(task, exec_path, _name=name, _lm=lm, _real=real,
                _cfg=pristine):
            slots = copy.deepcopy(task['slots'])
            rec = {'uid': task['uid'], 'lm': _name,
                   'slots': A.norm_slots(slots,
                                         jsrun=_name.startswith('JSRUN')),
                   'ranks': task['description']['ranks'],
                   'cores_per_rank': task['description']['cores_per_rank'],
                   'cmd': None, 'files': {}, 'exc': None, 'fresh': None,
                   'fresh_exc': None}
            if sc_.get('stale_files'):
                # an earlier command generation for the same uid and sandbox
                # (restarted session, application defined sandbox) left its
                # files behind: they name other nodes
                sbox = task.get('task_sandbox_path')
                if sbox and os.path.isdir(sbox):
                    for ext in ('nodes', 'hosts', 'rf', 'hf', 'rs'):
                        try:
                            with open('%s/%s.%s' % (sbox, task['uid'], ext),
                                      'w') as f:
                                f.write('stale001,stale002\n')
                        except OSError:
                            pass
                    sim.fault('stale_launch_files')
            try:
                cmd = _real(task, exec_path)
                rec['cmd'] = cmd if isinstance(cmd, str) else ' '.join(cmd)
                for f in referenced_files(rec['cmd']):
                    rec['files'][f] = _read(f)
                rec['files']['__hostname__'] = sim.data.get('hostname',
                                                            'localhost')
                rec['files']['__index__'] = {
                    str(nd['index']): nd['name']
                    for nd in _lm._rm_info.node_list}
                rec['files']['__tpc__'] = int(
                    _lm._rm_info.get('threads_per_core') or 1)
                rec['files']['__nodes__'] = [
                    nd['name'] for nd in _lm._rm_info.node_list]
                rec['cpn'] = _lm._rm_info.get('cores_per_node')
            except K.SimKilled:
                raise
            except BaseException as e:                             # noqa
                rec['exc'] = N.clean(repr(e))
                st['lm_records'].append(rec)
                raise
            # what would a fresh instance (no history) produce?
            try:
                lm_cfg = ru.Config(from_dict=copy.deepcopy(_cfg))
                fresh  = rpa.LaunchMethod.create(_name, lm_cfg, _lm._rm_info,
                                                 N.NullLog('lm'),
                                                 N.NullProf())
                t2 = copy.deepcopy(task)
                c2 = fresh.get_launch_cmds(t2, exec_path)
                rec['fresh'] = c2 if isinstance(c2, str) else ' '.join(c2)
            except K.SimKilled:
                raise
            except BaseException as e:                             # noqa
                rec['fresh_exc'] = N.clean(repr(e))
            st['lm_records'].append(rec)
            return cmd
        lm.get_launch_cmds = spy


def oracle(sim, sc, st):
    for rec in st.get('lm_records', []):
        site = rec['lm']
        slots = rec['slots']
        want_nodes = sorted(s['node_name'] for s in slots)
        det = {'uid': rec['uid'], 'cmd': rec['cmd'], 'ranks': rec['ranks'],
               'placement': [(s['node_name'], [c for c, _ in s['cores']])
                             for s in slots][:8]}
        if rec['cmd'] is None:
            continue            # refused by raising: task fails, no command
        try:
            p = parse(rec['lm'], rec['cmd'], rec['files'])
        except Exception as e:                                    # noqa
            sim.violation(PROP, 'unparsable', site, dict(det, err=repr(e)))
            continue
        det['parsed'] = {k: (sorted(v) if isinstance(v, set) else v)
                         for k, v in p.items() if k != 'pins'}
        if rec['lm'].upper() == 'IBRUN' and p.get('tpn'):
            # what ibrun cannot express is told apart by the *input*: the
            # host list geometry (entries per node vs. rank slots per node),
            # and placements which are not one contiguous run of rank slots
            cpr = rec['cores_per_rank'] or 1
            alloc = rec['files']['__nodes__']
            pos = sorted(alloc.index(s['node_name']) * p['tpn'] +
                         min(c for c, _ in s['cores']) // cpr
                         for s in slots if s['node_name'] in alloc)
            if p['tpn'] * cpr != rec.get('cpn') or any(
                    min(c for c, _ in s['cores']) // cpr >= p['tpn']
                    for s in slots):
                site = 'IBRUN:tasks_per_node_geometry'
            elif pos != list(range(pos[0], pos[0] + len(pos))):
                site = 'IBRUN:non_contiguous'
        if p['nprocs'] is not None and p['nprocs'] != rec['ranks']:
            sim.violation(PROP, 'nprocs', site, det)
        nsite = site
        if p['nodes'] is not None and ' --ppn ' in rec['cmd'] and \
                len({want_nodes.count(n_) for n_ in set(want_nodes)}) > 1:
            # told apart by the *input*: one `--ppn` value cannot express a
            # placement with different rank counts per node
            nsite = site + ':ppn_nonuniform'
        if p['nodes'] is not None:
            got = sorted(p['nodes'])
            if rec['lm'].upper() == 'FORK' and want_nodes == ['localhost']:
                got = ['localhost']         # FORK RM: every node is local
            if rec['lm'].upper().startswith('MPIRUN') and \
                    'MPT' in rec['lm'].upper():
                pass
            if set(got) - set(want_nodes):
                sim.violation(PROP, 'node_outside', nsite, det)
            elif set(want_nodes) - set(got):
                sim.violation(PROP, 'node_omitted', nsite, det)
            elif got != want_nodes:
                sim.violation(PROP, 'node_counts', nsite, det)
        if p.get('node_dups') or (p.get('n_nodes') is not None and
                                  p['node_set'] is not None and
                                  p['n_nodes'] != len(p['node_set'])):
            sim.violation(PROP, 'node_counts', site, det)
        if p['node_set'] is not None:
            if p['node_set'] - set(want_nodes):
                sim.violation(PROP, 'node_outside', site, det)
            elif set(want_nodes) - p['node_set']:
                sim.violation(PROP, 'node_omitted', site, det)
        if p['pins'] is not None:
            want_pins = [[c for c, _ in s['cores']] for s in slots]
            if [sorted(x) for x in p['pins']] != \
                    [sorted(x) for x in want_pins]:
                if '--cpu-bind list:' in rec['cmd'] and \
                        len(p['pins']) == len(want_pins) and all(
                            sorted(a) == list(range(min(b), max(b) + 1))
                            for a, b in zip(p['pins'], want_pins) if b):
                    # PALS: non-contiguous cores written as first-last range
                    site = site + ':cpu_bind_range'
                sim.violation(PROP, 'pin_wrong', site,
                              dict(det, pins=p['pins'][:8],
                                   want=want_pins[:8]))
        if p.get('dvm_uri') is not None:
            # the DVM addressed must be the one which holds the placement
            dl = A.lm_info('PRTE', sc['layout'])['details']['dvm_list']
            idx = {s['node_index'] for s in slots}
            ok_ = [dv['dvm_uri'] for dv in dl.values()
                   if idx <= set(dv['nodes'])]
            if p['dvm_uri'] not in ok_:
                sim.violation(PROP, 'wrong_partition', site,
                              dict(det, dvms=ok_))
        if p.get('rank_ids') is not None and \
                sorted(p['rank_ids']) != list(range(len(p['rank_ids']))):
            sim.violation(PROP, 'rank_ids', site, det)
        if p.get('gpins') is not None:
            want_g = [sorted(g for g, _ in s['gpus']) for s in slots]
            if [sorted(x) for x in p['gpins']] != want_g:
                sim.violation(PROP, 'gpu_pin_wrong', site,
                              dict(det, gpins=p['gpins'][:8],
                                   want=want_g[:8]))
        if p.get('rs'):
            # resource sets by numbers: the shape of one resource set must be
            # the shape of the placement's resource sets
            rs   = p['rs']
            tpc  = rec['files'].get('__tpc__') or 1
            a    = slots[0].get('rs_ranks') or 1
            cpr  = len(slots[0]['cores'])
            want = {'n': len(slots) // a, 'a': a,
                    'c': -(-cpr // tpc) * a,
                    'g': len({g for g, _ in slots[0]['gpus']})}
            if rs != want:
                sim.violation(PROP, 'resource_set_shape', site,
                              dict(det, want=want))
        if rec['fresh'] is not None and rec['fresh'] != rec['cmd']:
            sim.violation(PROP, 'residue', site,
                          dict(det, fresh=rec['fresh']))
        # a method which cannot start this task must refuse it
        n = rec['lm'].upper()
        if n in ('SSH', 'RSH', 'FORK') and rec['ranks'] > 1:
            sim.violation(PROP, 'wrong_refusal', site, det)


def run(seed, sc, trace=None, tier='quick'):
    def _spy(sim, st):
        sim.data['c09_sc'] = sc
        return install_spy(sim, st)
    S.HOOKS['after_start'] = _spy if sc.get('c09') else None
    S.HOOKS['final'] = oracle
    try:
        res = S.run(seed, sc, trace, tier)
    finally:
        S.HOOKS['after_start'] = None
        S.HOOKS['final'] = None
    res['violations'] = [x for x in res['violations']
                         if x['property'] == PROP]
    if res['status'] == 'violation' and not res['violations']:
        res['status'] = 'ok'
    st = res['sim'].data.get('agentsim') or {}
    recs = st.get('lm_records') or []
    res['nontrivial'] = len([r for r in recs if r['cmd']]) >= 2
    res['state_fp'] = [sc['layout']['lms'], sorted({r['lm'] for r in recs})]
    return res


shrink = S.shrink
SEEDS  = {'quick': 1200, 'thorough': 40000}
BUDGET = {'quick': 240, 'thorough': 3000}
INFO   = dict(S.INFO)
INFO['real'] = INFO['real'] + [
    'LaunchMethod.get_launch_cmds/can_launch of Fork, MPIRun (+MPT/RSH/CCMRUN/'
    'DPLACE), MPIExec (+MPT; rank file, host file, PALS, -f), Srun (old/new), '
    'APRun, IBRun, SSH, RSH, CCMRun, JSRun (resource sets by numbers and '
    'ERF file; placements by the real ContinuousJsrun scheduler), PRTE '
    '(1-3 DVMs / partitions)', 'ru.create_hostfile']
INFO['stub'] = INFO['stub'] + ['launcher binaries (commands are parsed, not '
                               'executed)', 'PRTE DVM start-up (the launcher '
                               'is initialised from a registry record as '
                               'sub-agents and the executor do)']
INFO['rule'] = ('scenario = C01 style layout on Slurm node names with a '
                'seeded launcher configuration (order, flavour, rank/host file '
                'modes, srun version, >42 host thresholds) and 2-8 tasks; '
                'every generated command is parsed by a reference parser and '
                'compared with the slots the scheduler chose, and with the '
                'command of a fresh launcher instance; non-trivial = >=2 '
                'commands; distinct = distinct event-log digest')
