'''
C16 - client and agents exchange each forwarded message exactly once.

World P: one client side and K pilot sides, each with its own control and state
pubsub; the proxy control/state pubsubs are shared.  On every side the real
Session._crosswire_proxy() installs the four real forwarders.  Publishers are
real components calling the real advance() (agent default fwd=True, client
default fwd=False) and raw publishers with every combination of forward flag
and origin marker.
'''

import radical.utils as ru

from ..worlds import common as C
from ..       import kernel as K
from ..       import net    as N

rp, rps, rpc, rpu = C.rp, C.rps, C.rpc, C.rpu

PROP = 'C16'


def gen(rng, tier):
    k = rng.choice([1, 1, 2, 3, 4])
    sides = ['client'] + ['pilot.%04d' % i for i in range(k)]
    late = None
    if k >= 2 and rng.random() < 0.25:
        late = rng.choice(sides[1:])
    msgs = list()
    for i in range(rng.randint(1, 12)):
        side = rng.choice(sides)
        kind = rng.choice(['raw_control', 'raw_control', 'raw_state',
                           'advance', 'advance', 'comp_control', 'comp_state'])
        m = {'id': i, 'side': side, 'kind': kind,
             'gap': rng.choice([0.0, 0.0, 0.0, 0.05, 0.3])}
        if kind == 'advance':
            m['fwd'] = rng.choice(['default', 'default', True, False])
            # the final states take their own branch in the advance() of
            # both component flavours
            m['state'] = rng.choice(['AGENT_EXECUTING', 'AGENT_EXECUTING',
                                     'FAILED', 'CANCELED', 'DONE'])
        else:
            m['fwd'] = rng.choice(['absent', False, True, True])
            m['origin'] = rng.choice(['absent', 'absent', 'own', 'other',
                                      'unknown'])
            # some messages carry a top level `uid` - and a request and its
            # reply carry the same one (RPC request / result pairs)
            if rng.random() < 0.3:
                m['uid'] = 'rpc.%04d' % rng.randint(0, 2)
            # not every message is a `cmd` message: the reply to an RPC
            # request is a typed message without a command
            if kind in ('raw_control', 'comp_control') and \
                    rng.random() < 0.2:
                m['shape'] = 'rpc_res'
                m['uid'] = 'rpc.%04d' % rng.randint(0, 2)
        msgs.append(m)
    if not late and len(sides) >= 2 and rng.random() < 0.3:
        # remote procedure calls across sides: the request is published on one
        # side, served by the component of another side, whose reply must in
        # turn reach every other side once
        for _ in range(rng.randint(1, 2)):
            a, b = rng.sample(sides, 2)
            msgs.insert(rng.randint(0, len(msgs)), {
                'id': len(msgs) + 100, 'side': a, 'kind': 'rpc_call',
                'server': b, 'fwd': True, 'origin': 'absent',
                'gap': rng.choice([0.0, 0.0, 0.05])})
    ops = [['msg', m] for m in msgs]
    if rng.random() < 0.3 and len(ops) > 1:
        pos = rng.randint(0, len(ops) - 1)
        ops.insert(pos, ['partition', rng.choice(sides),
                         rng.choice([0.2, 1.0, 3.0])])
    if late:
        pos = rng.randint(1, len(ops))
        # half of the late joins happen while messages flow (no quiet period
        # before the side wires itself up)
        ops.insert(pos, ['join', late, rng.random() < 0.5])
    return {'k': k, 'late': late, 'ops': ops,
            'delay_max': rng.choice([0.0, 0.0, 0.02, 0.2])}


def run(seed, scenario, trace=None, tier='quick'):

    sc = scenario

    def build(sim, cfg):

        st = {'sides': {}, 'recv': {}, 'joined': set(), 'sent': {},
              'fwd_pubs': {}, 'joined_at': {}, 'fwd_in': {}, 'fwd_out': {},
              'flux': None}

        def on_event(ev):
            # publications by the forwarders, per message id
            if ev['kind'] == 'pub' and str(ev.get('who', '')).startswith(
                    'fwd:'):
                for mid in mids_of_summary(ev['m']):
                    st['fwd_pubs'][mid] = st['fwd_pubs'].get(mid, 0) + 1
                    key = (mid, ev['who'][4:],
                           str(ev.get('chan', '')).startswith('proxy'))
                    st['fwd_out'][key] = st['fwd_out'].get(key, 0) + 1
            # what the forwarders themselves received
            if ev['kind'] == 'deliver' and str(ev.get('to', '')).startswith(
                    'fwd:'):
                for mid in mids_of_summary(ev['m']):
                    key = (mid, ev['to'][4:],
                           str(ev.get('chan', '')).startswith('proxy'))
                    st['fwd_in'][key] = st['fwd_in'].get(key, 0) + 1
        sim.listeners.append(on_event)

        def mids_of_summary(m):
            out = list()
            if m.get('mid') is not None:
                out.append(m['mid'])
            for uid, state in m.get('things') or []:
                if isinstance(state, str) and state.startswith('mid:'):
                    out.append(int(state[4:]))
                if isinstance(uid, str) and uid.startswith('task.m'):
                    out.append(int(uid[6:]))
            return out

        def mids_of(msg):
            out = list()
            if msg.get('mid') is not None:
                out.append(msg['mid'])
            if isinstance(msg.get('val'), dict) and 'mid' in msg['val']:
                out.append(msg['val']['mid'])
            if isinstance(msg.get('kwargs'), dict) and \
                    'mid' in msg['kwargs']:
                out.append(msg['kwargs']['mid'])
            for t in ru.as_list(msg.get('arg')) or []:
                if isinstance(t, dict) and str(t.get('uid', '')).startswith(
                        'task.m'):
                    out.append(int(t['uid'][6:]))
            return out

        def make_side(name, proxy):
            side = C.Side(sim, name)
            sim.data['sides_by_reg'][side.reg_url] = side
            side.add_pubsub(rpc.CONTROL_PUBSUB)
            side.add_pubsub(rpc.STATE_PUBSUB)
            side.alias(rpc.PROXY_CONTROL_PUBSUB, proxy['ctrl'])
            side.alias(rpc.PROXY_STATE_PUBSUB,   proxy['state'])
            role = rp.Session._PRIMARY if name == 'client' \
                else rp.Session._AGENT_0
            scfg = {'sid': 'rp.session.sim', 'path': '/nonexistent',
                    'reg_addr': side.reg_url}
            side.reg['cfg'] = scfg
            side.session = C.SimSession(side, 'rp.session.sim', role, scfg,
                                        module=name)
            # ordinary local subscribers
            for chan in (rpc.CONTROL_PUBSUB, rpc.STATE_PUBSUB):
                def cb(topic, msg, _side=name, _chan=chan):
                    for mid in mids_of(msg):
                        key = (mid, _side, _chan)
                        st['recv'][key] = st['recv'].get(key, 0) + 1
                bcfg = side.reg['bridges.%s' % chan]
                with C.group('obs:%s' % name):
                    sub = N.Subscriber(chan, url=bcfg['addr_sub'])
                    sub.subscribe(chan, cb=cb)
            # a real component per side (publisher through advance())
            ccfg = ru.Config(from_dict={'uid': 'comp.%s' % name,
                                        'sid': 'rp.session.sim',
                                        'owner': name, 'cmgr_url': None,
                                        'reg_addr': side.reg_url})
            cls = rpu.ClientComponent if name == 'client' \
                else rpu.AgentComponent
            with C.group('comp:%s' % name):
                comp = cls(ccfg, side.session)
                comp.register_rpc_handler(
                    'c16_echo', lambda mid=None: {'mid': 1000 + mid},
                    rpc_addr='comp.%s' % name)
                comp.start()
            side.comp = comp
            side.raw = dict()
            for chan in (rpc.CONTROL_PUBSUB, rpc.STATE_PUBSUB):
                with C.group('raw:%s' % name):
                    side.raw[chan] = N.Publisher(chan, url=side.reg[
                        'bridges.%s' % chan]['addr_pub'])
            st['sides'][name] = side
            return side

        def join(name):
            side = st['sides'][name]
            with C.group('fwd:%s' % name):
                side.session._crosswire_proxy()
            st['joined'].add(name)

        def driver():
            net = N.net()
            net.delay_max = sc['delay_max']
            sim.data['settle'] = 0.01      # end points connect as slowly as
            pside = C.Side(sim, 'proxy')   # the real ones (10 ms each)
            proxy = {'ctrl' : pside.add_pubsub(rpc.PROXY_CONTROL_PUBSUB),
                     'state': pside.add_pubsub(rpc.PROXY_STATE_PUBSUB)}
            names = ['client'] + ['pilot.%04d' % i for i in range(sc['k'])]
            for n in names:
                make_side(n, proxy)
            for n in names:
                if n != sc['late']:
                    join(n)

            def sync():
                C_wait(sim, lambda: net.idle(queues=False), 60.0)
                sim.sleep(0.3)
                for rec in st['sent'].values():
                    rec['since_sync'] = False
                if st.get('joiner') is None or \
                        st['joiner']._sim_thread.state == K.DONE:
                    st['flux'] = None
            sync()
            for op in sc['ops']:
                if op[0] == 'join':
                    if len(op) > 2 and op[2]:
                        # messages sent since the last quiet period and until
                        # the next one may or may not see this side connected
                        sim.fault('join_under_traffic')
                        st['flux'] = op[1]
                        for rec in st['sent'].values():
                            if rec.get('since_sync'):
                                rec['flux'] = op[1]
                        th = C.P.Thread(target=join, args=[op[1]],
                                        name='join.%s' % op[1])
                        th.start()
                        st['joiner'] = th
                    else:
                        sync()
                        join(op[1])
                        sync()
                elif op[0] == 'partition':
                    sim.fault('partition')
                    net.partitions = {op[1]: sim.now + op[2]}
                elif op[0] == 'msg':
                    m = op[1]
                    side = st['sides'][m['side']]
                    if m['gap']:
                        sim.sleep(m['gap'])
                    st['sent'][m['id']] = {'m': m,
                                           'joined': set(st['joined']),
                                           'since_sync': True,
                                           'flux': st['flux']}
                    if m['kind'] == 'rpc_call':
                        from radical.pilot.messages import RPCRequestMessage
                        sim.probe('rpc_across_sides')
                        # the reply: a message of the serving side
                        st['sent'][1000 + m['id']] = {
                            'm': {'id': 1000 + m['id'], 'side': m['server'],
                                  'kind': 'raw_control', 'fwd': True,
                                  'origin': 'absent', 'reply': True},
                            'joined': set(st['joined']),
                            'since_sync': True, 'flux': st['flux']}
                        req = RPCRequestMessage(
                            uid='rpc.c16.%d' % m['id'], cmd='c16_echo',
                            addr='comp.%s' % m['server'], args=[],
                            kwargs={'mid': m['id']})
                        side.raw[rpc.CONTROL_PUBSUB].put(
                            rpc.CONTROL_PUBSUB, req)
                        continue
                    if m['kind'] == 'advance':
                        state = getattr(rps, m.get('state',
                                                   'AGENT_EXECUTING'))
                        thing = {'uid': 'task.m%d' % m['id'], 'type': 'task',
                                 'state': rps.AGENT_SCHEDULING}
                        kw = dict()
                        if m['fwd'] != 'default':
                            kw['fwd'] = m['fwd']
                        side.comp.advance(thing, state,
                                          publish=True, push=False, **kw)
                    else:
                        chan = rpc.CONTROL_PUBSUB \
                            if m['kind'] in ('raw_control', 'comp_control') \
                            else rpc.STATE_PUBSUB
                        msg = {'cmd': 'noop_%d' % m['id'], 'arg': None,
                               'mid': m['id']}
                        if m.get('shape') == 'rpc_res':
                            from radical.pilot.messages import \
                                RPCResultMessage
                            msg = RPCResultMessage(uid=m['uid'],
                                                   val={'mid': m['id']})
                            if m['fwd'] == 'absent':
                                del msg['fwd']
                        if m['fwd'] != 'absent':
                            msg['fwd'] = m['fwd']
                        if m.get('uid'):
                            msg['uid'] = m['uid']
                        if m['origin'] == 'own':
                            msg['origin'] = m['side']
                        elif m['origin'] == 'other':
                            others = [s for s in st['sides']
                                      if s != m['side']]
                            msg['origin'] = others[0] if others else 'x'
                        elif m['origin'] == 'unknown':
                            msg['origin'] = 'pilot.9999'
                        if m['kind'].startswith('comp_'):
                            # a component relays / publishes the message
                            # through BaseComponent.publish
                            side.comp.publish(chan, msg)
                        else:
                            side.raw[chan].put(chan, msg)
            sync()
            sim.sleep(4.0)          # any circulating message keeps going
            st['quiet'] = net.idle(queues=False)

        def C_wait(sim, pred, timeout):
            end = sim.now + timeout
            while not pred():
                if sim.now >= end:
                    return False
                sim.sleep(0.05)
            return True

        def final(sim):
            names = sorted(st['sides'])
            n_sides = len(names)
            for mid, rec in sorted(st['sent'].items()):
                m = rec['m']
                src = m['side']
                if m['kind'] == 'rpc_call':
                    m = dict(m, kind='raw_control')
                chan = rpc.STATE_PUBSUB if m['kind'] in ('advance',
                                                         'raw_state',
                                                         'comp_state') \
                    else rpc.CONTROL_PUBSUB
                if m['kind'] == 'advance':
                    dflt = (src != 'client')
                    fwd = dflt if m['fwd'] == 'default' else bool(m['fwd'])
                    origin_ok = True
                else:
                    fwd = (m['fwd'] is True)
                    origin_ok = m['origin'] in ('absent', 'own')
                forwarded = fwd and origin_ok and src in rec['joined']
                # every forwarder forwards what it received and is eligible
                # (this also holds while its side is still joining)
                for name in names:
                    if name == src and fwd and origin_ok and \
                            st['fwd_in'].get((mid, name, False)) and \
                            not st['fwd_out'].get((mid, name, True)):
                        sim.violation(PROP, 'received_not_forwarded',
                                      'crosswire', {'msg': m, 'side': name,
                                                    'direction': 'to_proxy'})
                    if name != src and \
                            st['fwd_in'].get((mid, name, True)) and \
                            not st['fwd_out'].get((mid, name, False)):
                        sim.violation(PROP, 'received_not_forwarded',
                                      'crosswire', {'msg': m, 'side': name,
                                                    'direction': 'from_proxy'})
                for name in names:
                    if rec.get('flux') and rec['flux'] in (name, src):
                        # sent while that side was wiring itself up: whether
                        # it counts as connected is not determined
                        continue
                    got = st['recv'].get((mid, name, chan), 0)
                    if name == src:
                        want = 1
                    elif forwarded and name in rec['joined']:
                        want = 1
                    else:
                        want = 0
                    if got == want:
                        continue
                    if name == src:
                        clause = 'echo_to_origin' if got > 1 else 'lost_local'
                    elif want == 1 and got == 0:
                        clause = 'missing'
                    elif want == 1 and got > 1:
                        clause = 'duplicate'
                    else:
                        clause = 'leaked_unflagged'
                    sim.violation(PROP, clause, 'crosswire',
                                  {'msg': m, 'side': name, 'got': got,
                                   'want': want})
                # other channel: never
                other = rpc.CONTROL_PUBSUB if chan == rpc.STATE_PUBSUB \
                    else rpc.STATE_PUBSUB
                for name in names:
                    if st['recv'].get((mid, name, other), 0):
                        sim.violation(PROP, 'wrong_channel', 'crosswire',
                                      {'msg': m, 'side': name})
                if st['fwd_pubs'].get(mid, 0) > n_sides:
                    sim.violation(PROP, 'circulating', 'crosswire',
                                  {'msg': m, 'forwarder_pubs':
                                   st['fwd_pubs'].get(mid, 0),
                                   'bound': n_sides})
            if not st.get('quiet'):
                sim.violation(PROP, 'circulating', 'crosswire',
                              {'reason': 'network never becomes idle'})

        cfg['final'] = final
        return driver

    res = C.run_world(seed, build, trace=trace,
                      max_steps=80000 if tier == 'quick' else 300000)
    res['nontrivial'] = len([o for o in sc['ops'] if o[0] == 'msg']) >= 2
    return res


def shrink(sc):
    out = list()
    ops = sc['ops']
    for i in range(len(ops)):
        if ops[i][0] != 'join':
            c = dict(sc); c['ops'] = ops[:i] + ops[i + 1:]; out.append(c)
    if sc['delay_max']:
        c = dict(sc); c['delay_max'] = 0.0; out.append(c)
    return out


SEEDS  = {'quick': 2500, 'thorough': 100000}
BUDGET = {'quick': 240, 'thorough': 3000}

INFO = {
    'real': ['Session._crosswire_proxy / crosswire_pubsub (the four forwarder '
             'closures per side)', 'AgentComponent.advance / '
             'ClientComponent.advance / BaseComponent.publish (fwd defaults)'],
    'stub': ['pubsub bridges incl. the proxy channels (simulated transport: '
             'copies per subscriber, FIFO per link, seeded latency, '
             'time-bounded partitions of one side)', 'Session built without '
             'its constructor', 'proxy service (proxy.py) itself is not run'],
    'rule': 'scenario = 1 client + 1-4 pilot sides, 1-12 messages from seeded '
            'sides (real advance() with default/explicit fwd; raw control/'
            'state messages with fwd absent/False/True x origin absent/own/'
            'other/unknown), optional partition of one side, optional late '
            'join; non-trivial = >=2 messages; distinct = distinct event-log '
            'digest',
}
