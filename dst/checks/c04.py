'''C04 - the pilot scheduler neither loses nor starves tasks'''
from . import agentsim as S

PROP  = 'C04'
KNOBS = {'max_tasks': 12, 'cancel_prob': 0.5, 'named_env_share': 0.1,
         'bad_ranks_share': 0.05, 'tag_share': 0.1, 'fail_share': 0.0,
         'preempt': 0.01, 'partition_share': 0.08, 'preplaced_share': 0.1}


def _nontrivial(sc, res):
    return len(sc['tasks']) >= 3


gen, run = S.make_check(PROP, ['sched', 'sched', 'sched', 'sched', 'jsrun'],
                        KNOBS, _nontrivial)
shrink = S.shrink
SEEDS  = {'quick': 1500, 'thorough': 60000}
BUDGET = {'quick': 240, 'thorough': 3000}
INFO   = dict(S.INFO)
INFO['rule'] = ('scheduler focus: real scheduler parent + forked child, stub '
                'executor holds tasks for seeded times; cancels and named_env '
                'registrations land anywhere in the loop; non-trivial = >=3 '
                'tasks; liveness clauses only at quiescence, only for untagged '
                'tasks on an idle pilot; distinct = distinct event-log digest')
