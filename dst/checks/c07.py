'''C07 - the executor finishes each task exactly once'''
from . import agentsim as S

PROP  = 'C07'
KNOBS = {'max_tasks': 8, 'cancel_prob': 0.8, 'fail_share': 0.25,
         'spawn_fail_share': 0.15, 'timeout_share': 0.25, 'racy_share': 0.5,
         'grace_share': 0.4, 'preempt': 0.03, 'to_burst': 0.15,
         'stall_choices': [0.0, 0.01, 0.03, 0.2], 'exit_race': 0.12,
         'layout': {'nodes': 2, 'agent_nodes': 0}}


def _nontrivial(sc, res):
    return bool(sc['ops']) or any(t['rc'] or t.get('spawn_error') or
                                  t['descr'].get('timeout')
                                  for t in sc['tasks'])


gen, run = S.make_check(PROP, ['exec', 'exec', 'full'], KNOBS, _nontrivial)
shrink = S.shrink
SEEDS  = {'quick': 1500, 'thorough': 60000}
BUDGET = {'quick': 240, 'thorough': 3000}
INFO   = dict(S.INFO)
INFO['rule'] = ('executor focus (driver plays scheduler and staging-out) and '
                'full agent: cancel at any instant, process exit at any '
                'instant incl. between poll() and killpg, timeouts against '
                'the virtual clock, spawn errors, line-level pre-emption in '
                'popen.py/base.py; non-trivial = >=1 fault; distinct = '
                'distinct event-log digest')
