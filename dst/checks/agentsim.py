'''
Shared machinery for the properties decided in the agent world (C01, C02, C03,
C04, C07, C08): scenario generation, the driver, and the history oracles.
Every oracle records violations under its own property id; the per-property
check modules pick a focus / fault mix and count only their own violations.
'''

import os
import math
import copy

from ..worlds import common as C
from ..worlds import agent  as A
from ..       import kernel as K
from ..       import net    as N
from ..       import prims  as P

rp, rps, rpc = C.rp, C.rps, C.rpc

FINAL = [rps.DONE, rps.FAILED, rps.CANCELED]

# extension points for checks which reuse this world (C09, C05, C11)
HOOKS = {'after_start': None, 'final': None}


# ------------------------------------------------------------------------------
# scenario generation
#
def gen_layout(rng, focus, rich=True):
    nodes = rng.choice([1, 1, 2, 2, 3, 4])
    cpn   = rng.choice([1, 2, 4, 4, 8])
    gpn   = rng.choice([0, 0, 1, 2, 2, 4])
    lay = {'nodes': nodes, 'cpn': cpn, 'gpn': gpn,
           'lfs': rng.choice([0, 0, 100, 1000]),
           'mem': rng.choice([0, 0, 64, 512]),
           'blocked_cores': [], 'blocked_gpus': [],
           'agent_nodes': rng.choice([0, 0, 0, 1]),
           'scattered': rng.random() < 0.6,
           'rm': rng.choice(['FORK', 'FORK', 'SLURM']),
           'sched': 'CONTINUOUS',
           'spawner': 'POPEN',
           'lms': ['FORK', 'MPIRUN']}
    if cpn >= 4 and rng.random() < 0.3:
        lay['blocked_cores'] = sorted(rng.sample(range(cpn),
                                                 rng.randint(1, 2)))
    if gpn >= 2 and rng.random() < 0.3:
        lay['blocked_gpus'] = [rng.randrange(gpn)]
    if focus == 'sched':
        lay['spawner'] = 'STUB'
    elif focus in ('full', 'exec') and rng.random() < 0.12:
        lay['spawner'] = 'NOOP'
    return lay


def gen_task(rng, lay, i, focus, knobs):
    cpn  = lay['cpn'] - len(lay['blocked_cores'])
    gpn  = lay['gpn'] - len(lay['blocked_gpus'])
    ranks = rng.choice([1, 1, 1, 2, 2, 3, 4, 2 * lay['nodes']])
    cpr  = rng.choice([0, 1, 1, 1, 2, 2, cpn, cpn + 1])
    gpr  = 0
    if lay['gpn'] and rng.random() < 0.45:
        gpr = rng.choice([0.25, 0.5, 0.5, 1, 1, 2])
        if gpr == 2 and ranks == 3 and focus != 'jsrun' and \
                not lay.get('jsrun'):
            # more than one GPU cannot be shared - a request which cannot be
            # honoured and must be rejected.  Derived from the values drawn
            # above (no extra draw: all other scenarios stay what they were)
            gpr = 1.5
    d = {'executable': '/bin/true', 'ranks': ranks, 'cores_per_rank': cpr,
         'gpus_per_rank': gpr}
    if lay['lfs'] and rng.random() < 0.4:
        d['lfs_per_rank'] = rng.choice([10, lay['lfs'] // 2, lay['lfs'],
                                        lay['lfs'] + 1])
    if lay['mem'] and rng.random() < 0.4:
        d['mem_per_rank'] = rng.choice([8, lay['mem'] // 2, lay['mem'],
                                        lay['mem'] + 1])
    if ranks > 1 and rng.random() < 0.25:
        d['ranks_per_node'] = rng.choice([1, 2])
    if rng.random() < knobs.get('tag_share', 0.15):
        d['tags'] = {'colocate': rng.choice(['tag0', 'tag1', 'tag0', 'tag1',
                                             0, 1])}
        if rng.random() < 0.4:
            d['tags']['exclusive'] = True
    if rng.random() < 0.3:
        d['priority'] = rng.choice([0, 1, 5])
    if rng.random() < knobs.get('named_env_share', 0.0):
        d['named_env'] = 'env0'
    if rng.random() < knobs.get('bad_ranks_share', 0.0):
        d['ranks'] = 0
    if knobs.get('deprecated_share') and \
            rng.random() < knobs['deprecated_share']:
        # the same request written with the deprecated attribute names
        for new_, old_ in (('ranks', 'cpu_processes'),
                           ('cores_per_rank', 'cpu_threads'),
                           ('gpus_per_rank', 'gpu_processes'),
                           ('lfs_per_rank', 'lfs_per_process'),
                           ('mem_per_rank', 'mem_per_process')):
            if new_ in d and rng.random() < 0.7:
                if d[new_] != int(d[new_]):
                    continue      # the old attributes are integer valued
                d[old_] = d.pop(new_)
    if knobs.get('partition_share') and \
            rng.random() < knobs['partition_share']:
        # the launch methods driven here serve one partition: 0
        d['partition'] = rng.choice([0, 0, 0, 3])
    t = {'descr': d,
         'at': round(rng.choice([0.0, 0.0, 0.0, rng.uniform(0, 2.0)]), 2),
         'runtime': rng.choice([0.0, 0.05, 0.2, 0.2, 0.5, 1.0, 2.5]),
         'rc': 0, 'racy': False, 'preplaced': False}
    r = rng.random()
    if r < knobs.get('fail_share', 0.15):
        t['rc'] = rng.choice([1, 2, 127])
    if rng.random() < knobs.get('spawn_fail_share', 0.0):
        t['spawn_error'] = True
    if rng.random() < knobs.get('timeout_share', 0.0):
        d['timeout'] = rng.choice([0.2, 0.5, 1.0])
        # 1000: a process which never ends by itself - if its run-time limit
        # is lost the task is left behind
        t['runtime'] = rng.choice([0.1, 0.5, 1.0, 5.0, 1000.0, 1000.0]
                                  if focus in ('exec', 'full') else
                                  [0.1, 0.5, 1.0, 5.0])
    if rng.random() < knobs.get('racy_share', 0.0):
        t['racy'] = True
    if rng.random() < knobs.get('grace_share', 0.0):
        t['term_grace'] = rng.choice([0.05, 0.2])
    return t


def gen_scenario(rng, tier, focus, knobs):
    lay = gen_layout(rng, focus)
    if knobs.get('layout'):
        lay.update(knobs['layout'])
    n   = rng.randint(knobs.get('min_tasks', 2), knobs.get('max_tasks', 10))
    tasks = [gen_task(rng, lay, i, focus, knobs) for i in range(n)]
    # application supplied placements (td.slots).  The application can only
    # place consistently if it is the only one placing at that time: either
    # all tasks are pre-placed, or the pre-placed ones come first, into the
    # idle pilot, before any task the pilot scheduler places (DESIGN 4/C01)
    pmode = 'none'
    if knobs.get('preplaced_share'):
        pmode = rng.choice(['none'] * 6 + ['all', 'first', 'first'])
    for t in tasks:
        t['preplaced'] = False
    if pmode == 'all':
        for t in tasks:
            t['preplaced'] = True
            t['at'] = 0.0
    elif pmode == 'first':
        k = rng.randint(1, max(1, n // 2))
        for i, t in enumerate(tasks):
            if i < k:
                t['preplaced'] = True
                t['at'] = 0.0
                t['runtime'] = rng.choice([0.2, 1.0, 2.5, 2.5])
            else:
                t['at'] = round(0.5 + t['at'], 2)
    if knobs.get('to_burst') and rng.random() < knobs['to_burst']:
        # a stream of tasks with run-time limits: the executor's intake hands
        # limits to the timeout watcher while that is busy with earlier ones
        # (the watcher sleeps 1s while it has nothing to watch)
        for t in tasks:
            if not t['preplaced']:
                t['descr']['timeout'] = rng.choice([0.5, 1.0, 2.0])
                t['runtime'] = rng.choice([0.1, 5.0, 1000.0, 1000.0])
                t['at'] = round(rng.uniform(0.0, 2.5), 2)
    ops = list()
    if rng.random() < knobs.get('cancel_prob', 0.0):
        for _ in range(rng.randint(1, 3)):
            k = rng.randint(1, min(3, n))
            ops.append([round(rng.uniform(0.0, 3.0), 2), 'cancel',
                        sorted(rng.sample(range(n), k))])
    if rng.random() < knobs.get('cancel_prob', 0.0) * 0.7:
        # cancel requests triggered by an observable event of the task itself:
        # they land in the narrow windows (in flight between components,
        # between announcement and spawn, right at process exit)
        for _ in range(rng.randint(1, 2)):
            i = rng.randrange(n)
            trig = rng.choice([rps.AGENT_SCHEDULING, rps.AGENT_EXECUTING_PENDING,
                               rps.AGENT_EXECUTING_PENDING,
                               rps.AGENT_EXECUTING, rps.AGENT_EXECUTING,
                               'spawn', 'spawn', 'exit', 'exit',
                               'pre_exit', 'pre_exit'])
            # the trigger task first, then (half of the time) one or two
            # others: handling those keeps the cancel handler busy
            extra = [i]
            if rng.random() < 0.5:
                for k in rng.sample(range(n), min(n, rng.randint(1, 2))):
                    if k not in extra:
                        extra.append(k)
                # ... and tasks which live long enough to tell whether they
                # were stopped
                for k in extra:
                    if rng.random() < 0.6:
                        tasks[k]['runtime'] = rng.choice([1.0, 2.5])
            lead = 0.0
            if trig == 'pre_exit':
                lead = rng.choice([0.0, 0.0, 0.005, 0.02, 0.05])
            ops.append([lead, 'cancel_on', extra, i, trig])
    if any(t['descr'].get('named_env') for t in tasks):
        if rng.random() < 0.8:
            ops.append([round(rng.uniform(0.0, 2.0), 2), 'named_env', 'env0'])
    exit_race = bool(knobs.get('exit_race')) and \
        rng.random() < knobs['exit_race']
    if exit_race:
        # every task is cancelled around the instant at which its process
        # ends by itself, threads are descheduled often
        for i, t in enumerate(tasks):
            if t['preplaced'] or t.get('spawn_error'):
                continue
            t['runtime'] = rng.choice([0.3, 0.5, 1.0])
            t['descr'].pop('timeout', None)
            ops.append([rng.choice([0.0, 0.005, 0.02, 0.04]), 'cancel_on',
                        [i], i, 'pre_exit'])
    ops.sort()
    return {'focus': focus, 'layout': lay, 'tasks': tasks, 'ops': ops,
            'delay_max': rng.choice([0.0, 0.0, 0.02, 0.1]),
            'preempt': knobs.get('preempt', 0.0) if rng.random() < 0.7 else 0.0,
            'yield_prob': rng.choice([1.0, 1.0, 0.5]),
            'bulk_max': rng.choice([1, 4, 64, 1024]),
            'stall': (0.2 if exit_race else
                      rng.choice(knobs.get('stall_choices',
                                           [0.0, 0.0, 0.01, 0.03])))
            if knobs.get('stall', True) else 0.0}


# ------------------------------------------------------------------------------
# reference arithmetic: does a task fit the *idle* pilot?
#
DEPRECATED = (('ranks', 'cpu_processes'), ('cores_per_rank', 'cpu_threads'),
              ('gpus_per_rank', 'gpu_processes'),
              ('lfs_per_rank', 'lfs_per_process'),
              ('mem_per_rank', 'mem_per_process'))


def as_requested(raw):
    '''what the application asked for, in current attribute names (the
    oracle's own reading of a scenario description: deprecated names mean
    what their replacements mean)'''
    out = dict(raw)
    for new_, old_ in DEPRECATED:
        if old_ in out:
            v_ = out.pop(old_)
            if v_:
                out[new_] = v_
    return out


def requested_descr(sc, st):
    '''uid -> description; the shape is judged against what the application
    wrote, not against what TaskDescription.verify() made of it'''
    descr = {uid: t['description'] for uid, t in st['tasks'].items()}
    for uid in list(descr):
        try:
            raw = as_requested(sc['tasks'][int(uid.split('.')[1])]['descr'])
        except (ValueError, IndexError):
            continue
        d2 = dict(descr[uid])
        for k in ('ranks', 'cores_per_rank', 'gpus_per_rank', 'lfs_per_rank',
                  'mem_per_rank', 'ranks_per_node'):
            if k in raw:
                d2[k] = raw[k]
        descr[uid] = d2
    return descr


def usable(lay):
    return (lay['cpn'] - len(lay['blocked_cores']),
            lay['gpn'] - len(lay['blocked_gpus']))


def ranks_per_node_cap(d, lay):
    ucpn, ugpn = usable(lay)
    c = max(d.get('cores_per_rank') or 1, 1)
    g = d.get('gpus_per_rank') or 0
    cap = ucpn // c
    if g > 1 and g != int(g):
        return 0            # GPUs above one cannot be shared: never fits
    if g >= 1:
        cap = min(cap, int(ugpn // g))
    elif g > 0:
        cap = min(cap, int(math.floor(ugpn / g)))
    if d.get('lfs_per_rank'):
        cap = min(cap, lay['lfs'] // d['lfs_per_rank'] if lay['lfs'] else 0)
    if d.get('mem_per_rank'):
        cap = min(cap, lay['mem'] // d['mem_per_rank'] if lay['mem'] else 0)
    if d.get('ranks_per_node'):
        cap = min(cap, d['ranks_per_node'])
    return cap


def per_rank_exceeds_node(d, lay):
    '''per-rank needs exceed what one node offers (C02 oversize_rejected)'''
    c = max(d.get('cores_per_rank') or 1, 1)
    g = d.get('gpus_per_rank') or 0
    # the node figures the RM publishes (cores_per_node net of blocked ones)
    ucpn, ugpn = usable(lay)
    if c > ucpn:
        return True
    if g > ugpn:
        return True
    if (d.get('lfs_per_rank') or 0) > lay['lfs']:
        return True
    if (d.get('mem_per_rank') or 0) > lay['mem']:
        return True
    return False


def fits_idle(d, lay):
    if d.get('ranks', 1) <= 0:
        return False
    if d.get('partition') not in (None, 0):
        return False
    cap = ranks_per_node_cap(d, lay)
    if cap < 1:
        return False
    if d.get('ranks', 1) == 1:
        return True
    return d['ranks'] <= cap * lay['nodes']


# ------------------------------------------------------------------------------
#
def run(seed, sc, trace=None, tier='quick'):

    lay   = sc['layout']
    focus = sc['focus']

    def build(sim, cfg):

        st = {'side': None, 'tasks': {}, 'order': [], 'collected': {},
              'finals': {}, 'plans': {}, 'comps': {}, 'rm_nodes': None,
              'cancel_reqs': [], 'preplaced': set(), 'exec_cancel_seen': {}}
        sim.data['agentsim'] = st

        def driver():
            root = sim.data['tmp']
            side = A.make_pilot(sim, lay, root)
            st['side'] = side
            net = N.net()
            net.delay_max = sc['delay_max']
            net.bulk_max  = sc['bulk_max']
            reg = side.reg

            # ------------------------------------------------------------------
            plans = st['plans']
            for i, t in enumerate(sc['tasks']):
                uid = 'task.%06d' % i
                plans[uid] = {'runtime': t['runtime'], 'rc': t['rc'],
                              'racy': t.get('racy', False),
                              'spawn_error': t.get('spawn_error', False),
                              'term_grace': t.get('term_grace', 0.0)}
            A.install_proc_plan(sim, plans)

            kinds = list()
            if focus == 'full':
                kinds = ['agent_staging_input', 'agent_scheduling',
                         'agent_executing', 'agent_staging_output']
            elif focus == 'sched':
                kinds = ['agent_scheduling']
            elif focus == 'exec':
                kinds = ['agent_executing']
            try:
                st['comps'] = A.start_components(side, kinds)
            except BaseException as e:                              # noqa
                if isinstance(e, K.SimKilled):
                    raise
                raise K.HarnessError('component startup failed: %r' % e)
            sim.freeze('Idler')
            if HOOKS.get('after_start'):
                HOOKS['after_start'](sim, st)
            rm = reg['rm.%s' % lay['rm'].lower()]
            if not rm:
                # NOOP executor alone never initialises the RM
                from radical.pilot.agent.resource_manager import \
                    ResourceManager
                ResourceManager.create(lay['rm'], side.session.cfg,
                                       side.session.rcfg, N.NullLog('rm'),
                                       N.NullProf())
                rm = reg['rm.%s' % lay['rm'].lower()]
            st['rm_info'] = rm

            if lay['spawner'] == 'STUB' and focus == 'sched':
                st['stub'] = A.StubExecutor(sim, side, plans)

            # observers ----------------------------------------------------------
            def state_cb(topic, msg):
                if msg.get('cmd') != 'update':
                    return
                for thing in msg.get('arg', []):
                    if thing.get('type') == 'task' and \
                            thing.get('state') in FINAL:
                        st['finals'].setdefault(thing['uid'], []).append(
                            copy.deepcopy(thing))
            scfg = reg['bridges.%s' % rpc.STATE_PUBSUB]
            with C.group('driver'):
                sub = N.Subscriber(rpc.STATE_PUBSUB, url=scfg['addr_sub'])
                sub._faulty = False
                sub.subscribe(rpc.STATE_PUBSUB, cb=state_cb)

            def collector():
                g = N.Getter(rpc.AGENT_COLLECTING_QUEUE, url=reg[
                    'bridges.%s' % rpc.AGENT_COLLECTING_QUEUE]['addr_get'])
                while True:
                    tasks = g.get_nowait(timeout=500)
                    for t in tasks or []:
                        st['collected'].setdefault(t['uid'], []).append(t)
            if focus == 'full':
                sim.spawn(collector, 'collector', group='driver')

            def sout_collector():
                g = N.Getter(rpc.AGENT_STAGING_OUTPUT_QUEUE, url=reg[
                    'bridges.%s' % rpc.AGENT_STAGING_OUTPUT_QUEUE]['addr_get'])
                while True:
                    tasks = g.get_nowait(timeout=500)
                    for t in tasks or []:
                        st['collected'].setdefault(t['uid'], []).append(t)
            if focus == 'exec':
                sim.spawn(sout_collector, 'collector', group='driver')

            in_q = {'full' : rpc.AGENT_STAGING_INPUT_QUEUE,
                    'sched': rpc.AGENT_SCHEDULING_QUEUE,
                    'exec' : rpc.AGENT_EXECUTING_QUEUE}[focus]
            in_state = {'full' : rps.AGENT_STAGING_INPUT_PENDING,
                        'sched': rps.AGENT_SCHEDULING_PENDING,
                        'exec' : rps.AGENT_EXECUTING_PENDING}[focus]
            put = N.Putter(in_q, url=reg['bridges.%s' % in_q]['addr_put'])
            ctl = N.Publisher(rpc.CONTROL_PUBSUB, url=reg[
                'bridges.%s' % rpc.CONTROL_PUBSUB]['addr_pub'])

            # application level node list for pre-placed tasks
            nodelist = None
            if any(t.get('preplaced') for t in sc['tasks']):
                # built the way the application gets it: the real
                # `Pilot.nodelist` property on the resource details which
                # the agent reports (here: a stand-in for the Pilot object)
                class _P(object):
                    _nodelist = None
                    resource_details = {
                        'node_list': copy.deepcopy(rm['node_list']),
                        'numa_domain_map': None}
                nodelist = rp.Pilot.nodelist.fget(_P())
            st['nodelist'] = nodelist
            st['app_slots'] = dict()

            # timeline -----------------------------------------------------------
            tl = list()
            for i, t in enumerate(sc['tasks']):
                tl.append((t['at'], 0, 'task', i))
            for j, op in enumerate(sc['ops']):
                if op[1] != 'cancel_on':
                    tl.append((op[0], 1, 'op', j))
            tl.sort()
            t0 = sim.now
            st['t0'] = t0
            pending = list()
            # event triggered cancels: one canceller thread per op
            def canceller(op):
                _, _, idxs, i, trig = op
                uid = 'task.%06d' % i
                hit = {'seen': False}

                def hook(ev):
                    if hit['seen']:
                        return
                    if trig in ('spawn', 'pre_exit'):
                        if ev['kind'] == 'proc_spawn' and ev.get('tag') == uid:
                            hit['seen'] = True
                    elif trig == 'exit':
                        if ev['kind'] == 'proc_exit' and ev.get('tag') == uid:
                            hit['seen'] = True
                    elif ev['kind'] == 'pub' and \
                            ev.get('chan') == rpc.STATE_PUBSUB:
                        for u, s_ in ev['m'].get('things', []):
                            if u == uid and s_ == trig:
                                hit['seen'] = True
                sim.listeners.append(hook)

                def body():
                    sim.block(lambda: hit['seen'], 60.0, what='cancel_on')
                    if not hit['seen']:
                        return
                    if trig == 'pre_exit':
                        # the request is issued a moment before the process
                        # ends by itself: it reaches the executor around the
                        # instant of the exit
                        rt = (st['plans'].get(uid) or {}).get('runtime', 0.0)
                        if rt >= 1000:
                            return
                        sim.sleep(max(0.0, rt - op[0]))
                    uids = ['task.%06d' % k for k in idxs]
                    sim.fault('cancel')
                    sim.fault('cancel_on:%s' % trig)
                    st['cancel_reqs'].append((len(sim.events), sim.now, uids))
                    cpub = N.Publisher(rpc.CONTROL_PUBSUB, url=reg[
                        'bridges.%s' % rpc.CONTROL_PUBSUB]['addr_pub'])
                    cpub.put(rpc.CONTROL_PUBSUB, {
                        'cmd': 'cancel_tasks',
                        'arg': {'uids': uids, 'tmgr': 'tmgr.0000'}})
                sim.spawn(body, 'canceller', group='driver')

            for op in sc['ops']:
                if op[1] == 'cancel_on':
                    canceller(op)


            def flush():
                if pending:
                    put.put(list(pending))
                    del pending[:]

            last_t = None
            for t, _, kind, idx in tl:
                if last_t is not None and t != last_t:
                    flush()
                last_t = t
                dt = t0 + t - sim.now
                if dt > 0:
                    sim.sleep(dt)
                if kind == 'task':
                    spec = sc['tasks'][idx]
                    uid  = 'task.%06d' % idx
                    d    = dict(spec['descr'])
                    task = A.make_task(side, uid, d, state=in_state)
                    if spec.get('preplaced') and nodelist is not None:
                        slots = preplace(nodelist, task['description'])
                        if not slots:
                            continue          # the application holds it back
                        if sc.get('jsrun') and spec.get('rs_group'):
                            slots = to_jsrun_slots(slots, spec['rs_group'])
                        if spec.get('shuffle'):
                            # the application may list the ranks in any order
                            import random as _random
                            _random.Random(spec['shuffle']).shuffle(slots)
                        task['description']['slots'] = slots
                        task['description']['partition'] = None
                        if sc['layout'].get('prte_dvms'):
                            # the application names the partition (DVM)
                            # which holds all nodes of its placement
                            dl = A.lm_info('PRTE', sc['layout'])[
                                'details']['dvm_list']
                            idx = {sl['node_index'] for sl in slots}
                            for pid_, dv in dl.items():
                                if idx <= set(dv['nodes']):
                                    task['description']['partition'] = pid_
                        st['preplaced'].add(uid)
                        st['app_slots'][uid] = slots
                    if focus == 'exec':
                        # the driver plays the scheduler: simple private ledger
                        slots = exec_slots(st, task['description'])
                        if slots is None:
                            continue
                        task['slots'] = slots
                        task['partition'] = None
                    st['tasks'][uid] = task
                    st['order'].append(uid)
                    pending.append(task)
                else:
                    flush()
                    op = sc['ops'][idx]
                    if op[1] == 'cancel':
                        uids = ['task.%06d' % i for i in op[2]]
                        sim.fault('cancel')
                        st['cancel_reqs'].append((len(sim.events), sim.now,
                                                  uids))
                        ctl.put(rpc.CONTROL_PUBSUB, {
                            'cmd': 'cancel_tasks',
                            'arg': {'uids': uids, 'tmgr': 'tmgr.0000'}})
                    elif op[1] == 'named_env':
                        ctl.put(rpc.CONTROL_PUBSUB, {
                            'cmd': 'register_named_env',
                            'arg': {'env_name': op[2]}})
            flush()

            # run to quiescence ----------------------------------------------------
            def accounted():
                for uid in st['order']:
                    if uid in st['collected'] or uid in st['finals']:
                        continue
                    if focus == 'sched' and uid in getattr(
                            st.get('stub'), 'done', []):
                        continue
                    return False
                return True

            t_max = sim.now + 40.0
            while sim.now < t_max:
                sim.sleep(0.5)
                if accounted() and net.idle() and not live_procs(sim):
                    break
            # settle: late duplicates, releases, waitpool rescheduling
            sim.sleep(3.0)
            st['t_end'] = sim.now

        def final(sim):
            oracles(sim, sc, st)
            if HOOKS.get('final'):
                HOOKS['final'](sim, sc, st)

        cfg['final'] = final
        return driver

    pre = None
    if sc.get('preempt'):
        pre = (('executing/popen.py', 'executing/base.py',
                'executing/noop.py',
                'scheduler/base.py', 'scheduler/continuous.py'),
               sc['preempt'])
    res = C.run_world(seed, build, trace=trace, tmp=True,
                      yield_prob=sc.get('yield_prob', 1.0), preempt=pre,
                      stall_prob=sc.get('stall', 0.0),
                      max_steps=150000 if tier == 'quick' else 600000)
    os.environ.pop('SLURM_NODELIST', None)
    os.environ.pop('SLURM_CPUS_ON_NODE', None)
    st = res['sim'].data.get('agentsim') or {}
    L  = st.get('ledger') or {}
    res['max_held'] = st.get('max_held', 0)
    res['n_grants'] = len(L.get('grants') or {})
    res['state_fp'] = [res['max_held'], res['n_grants'],
                       len(waitpool_uids(st.get('child'))),
                       sorted(res['probes'])]
    return res


def make_check(prop, focuses, knobs, nontrivial):
    '''per property front end: scenario generator and violation filter'''

    def gen(rng, tier):
        focus = rng.choice(focuses)
        if focus == 'nodelist':
            from . import nodelist
            return nodelist.gen(rng, tier)
        if focus == 'jsrun':
            # scheduler focus with the JSRUN launch method configured: the
            # agent then runs the ContinuousJsrun scheduler
            sc = gen_scenario(rng, tier, 'sched', knobs)
            sc['layout']['lms'] = ['JSRUN']
            sc['jsrun'] = True
            for t in sc['tasks']:
                t['preplaced'] = False
                d = t['descr']
                for k in ('gpus_per_rank', 'gpu_processes'):
                    if d.get(k) == 1.5:
                        d[k] = 2      # as drawn (resource sets: not judged)
                # resource sets with several ranks (shared GPUs), with and
                # without a ranks-per-node limit
                if sc['layout']['gpn'] and d.get('ranks', 1) > 1 and \
                        rng.random() < 0.4:
                    d['gpus_per_rank'] = rng.choice([0.5, 0.5, 0.25])
                    d['cores_per_rank'] = 1
                    if rng.random() < 0.6:
                        d['ranks_per_node'] = rng.choice([1, 2, 2, 4])
            return sc
        return gen_scenario(rng, tier, focus, knobs)

    def run_(seed, sc, trace=None, tier='quick'):
        if sc.get('focus') == 'nodelist':
            from . import nodelist
            res = nodelist.run(seed, sc, trace, tier)
        else:
            res = run(seed, sc, trace, tier)
        res['violations'] = [x for x in res['violations']
                             if x['property'] == prop]
        if res['status'] == 'violation' and not res['violations']:
            res['status'] = 'ok'
        res['nontrivial'] = bool(nontrivial(sc, res))
        return res

    return gen, run_


def shrink(sc):
    if sc.get('focus') == 'nodelist':
        from . import nodelist
        return nodelist.shrink(sc)
    out = list()
    tasks, ops = sc['tasks'], sc['ops']
    n = len(tasks)
    # drop halves, then single tasks (indices in cancel ops are remapped)
    def without(drop):
        keep = [i for i in range(n) if i not in drop]
        remap = {old: new for new, old in enumerate(keep)}
        c = dict(sc)
        c['tasks'] = [tasks[i] for i in keep]
        nops = list()
        for op in ops:
            if op[1] == 'cancel':
                idx = [remap[i] for i in op[2] if i in remap]
                if idx:
                    nops.append([op[0], 'cancel', idx])
            else:
                nops.append(op)
        c['ops'] = nops
        return c
    if n > 3:
        h = n // 2
        out.append(without(set(range(h))))
        out.append(without(set(range(h, n))))
        q = max(1, n // 4)
        for k in range(0, n, q):
            out.append(without(set(range(k, min(n, k + q)))))
    for i in range(n):
        if n > 1:
            out.append(without({i}))
    for j in range(len(ops)):
        c = dict(sc); c['ops'] = ops[:j] + ops[j + 1:]; out.append(c)
    for k, val in (('delay_max', 0.0), ('preempt', 0.0), ('yield_prob', 1.0),
                   ('bulk_max', 1024), ('stall', 0.0)):
        if sc.get(k) != val:
            c = dict(sc); c[k] = val; out.append(c)
    lay = sc['layout']
    for k, val in (('blocked_cores', []), ('blocked_gpus', []),
                   ('agent_nodes', 0), ('rm', 'FORK'), ('lfs', 0), ('mem', 0)):
        if lay.get(k) != val:
            c = dict(sc); c['layout'] = dict(lay); c['layout'][k] = val
            out.append(c)
    for i, t in enumerate(tasks):
        d = t['descr']
        for k in ('tags', 'priority', 'ranks_per_node', 'lfs_per_rank',
                  'mem_per_rank', 'named_env', 'timeout'):
            if k in d:
                c = dict(sc); nt = dict(t); nd = dict(d); del nd[k]
                nt['descr'] = nd
                c['tasks'] = tasks[:i] + [nt] + tasks[i + 1:]
                out.append(c)
    return out


INFO = {
    'real': ['agent staging_input Default', 'AgentSchedulingComponent '
             '(parent: work/unschedule_cb/_control_cb; forked child: '
             '_schedule_tasks/_schedule_incoming/_schedule_waitpool/'
             '_unschedule_completed/_try_allocation/_change_slot_states)',
             'Continuous.schedule_task/_find_resources/unschedule_task',
             'ContinuousJsrun.schedule_task/_find_resources/'
             '_change_slot_states (focus jsrun: JSRUN launch method '
             'configured, scheduler focus)',
             'executing Popen (work loop, _watch, _to_watcher, control '
             'listener) and NOOP', 'agent staging_output Default',
             'ResourceManager Fork/Slurm _init_from_scratch/_filter_nodes/'
             'find_launcher', 'LaunchMethod Fork/MPIRun (init from registry '
             'info)', 'BaseComponent work loop / advance / is_canceled',
             'NodeList.find_slots (application side pre-placement)'],
    'stub': ['ZMQ bridges and registry (simulated transport)', 'task '
             'processes (SimProc: seeded runtime / exit code / spawn error)',
             'client side and agent_0 (driver feeds the queues, collects '
             'agent_collecting_queue)', 'scheduler focus: stub executor',
             'fork() = deep copy with shared IPC objects',
             'logger/profiler'],
}


def live_procs(sim):
    for p in sim.data.get('procs', {}).values():
        if not p.reaped and not p.exited():
            return True
        if not p.reaped:
            return True
    return False


# ------------------------------------------------------------------------------
# application side placement with the real NodeList (pre-placed tasks)
#
def preplace(nodelist, d):
    from radical.pilot.resource_config import RankRequirements
    g = d.get('gpus_per_rank') or 0
    rr = RankRequirements(n_cores=max(d.get('cores_per_rank') or 1, 1),
                          n_gpus=int(math.ceil(g)) if g else 0,
                          gpu_occupation=(g if 0 < g < 1 else 1.0),
                          lfs=d.get('lfs_per_rank') or 0,
                          mem=d.get('mem_per_rank') or 0)
    try:
        slots = nodelist.find_slots(rr, n_slots=max(d.get('ranks', 1), 1))
    except Exception:
        return None
    if not slots:
        return None
    return [s.as_dict() for s in slots]


def to_jsrun_slots(slots, group):
    '''application made placement in the slot format of ContinuousJsrun / the
    JSRUN launcher: one entry per resource set with one core list per rank.
    group `rank`: one resource set per rank; `node`: consecutive ranks on the
    same node share a resource set (sets of different sizes)'''
    out = list()
    for s in slots:
        cores = [c['index'] if isinstance(c, dict) else c[0]
                 for c in s['cores']]
        if group == 'node' and out and \
                out[-1]['node_index'] == s['node_index']:
            out[-1]['cores'].append(cores)
            out[-1]['gpus'].append([])
            out[-1]['lfs'] += s.get('lfs') or 0
            out[-1]['mem'] += s.get('mem') or 0
        else:
            out.append({'node_name': s['node_name'],
                        'node_index': s['node_index'],
                        'cores': [cores], 'gpus': [[]],
                        'lfs': s.get('lfs') or 0, 'mem': s.get('mem') or 0})
    return out


def exec_slots(st, d):
    '''executor focus: trivially place each rank on node 0 core 0.. (the
    executor does not look at occupancy)'''
    lay = st['side'].layout
    ranks = max(d.get('ranks', 1), 1)
    c = max(d.get('cores_per_rank') or 1, 1)
    name = st['rm_info']['node_list'][0]['name']
    slots = list()
    for r in range(ranks):
        slots.append({'node_name': name, 'node_index': 0,
                      'cores': [{'index': (r * c + k) % max(lay['cpn'], 1),
                                 'occupation': 1.0} for k in range(c)],
                      'gpus': [], 'lfs': 0, 'mem': 0, 'version': 1})
    return slots


# ------------------------------------------------------------------------------
# oracles
#
def oracles(sim, sc, st):

    lay   = sc['layout']
    focus = sc['focus']
    rm    = st['rm_info']
    nodes = {n['index']: n for n in rm['node_list']}
    agent_idx = {n['index'] for n in (rm.get('agent_node_list') or [])} | \
                {n['index'] for n in (rm.get('service_node_list') or [])}
    descr = requested_descr(sc, st)

    held     = dict()     # uid -> normalised slots
    grants   = dict()     # uid -> count
    releases = dict()     # uid -> count
    handed   = dict()     # uid -> times handed to scheduler work()
    sched_reports = dict()  # uid -> [kinds]
    exec_announce = dict()
    exec_handon   = dict()
    exec_failed   = dict()
    exec_canceled = dict()
    colo_nodes    = dict()   # tag -> set(node_index) of first grant
    tainted       = set()
    share_gpus    = set()    # GPUs on which the known share defect has shown
    used_nodes    = set()    # node indices which ever carried a task

    def who_is(ev, part):
        return part in str(ev.get('who') or '')

    def check_conflicts(uid, slots, seq, by_app):
        # C01
        if tainted:
            return          # an application-made overlap: nothing conclusive
        for s in slots:
            ni = s['node_index']
            used_nodes.add(ni)
            if len(used_nodes) > lay['nodes'] and lay.get('agent_nodes'):
                # more distinct nodes carry tasks than the pilot has for
                # tasks: a node set aside for agents / services is in use
                # (independent of the node lists the resource manager built)
                v(sim, 'C01', 'agent_node_used', by_app, uid,
                  {'used': sorted(used_nodes), 'task_nodes': lay['nodes'],
                   'agent_nodes': lay['agent_nodes']}, seq)
            if ni not in nodes:
                if ni in agent_idx:
                    v(sim, 'C01', 'agent_node_used', by_app, uid, s, seq)
                else:
                    v(sim, 'C01', 'unknown_node', by_app, uid, s, seq)
                continue
            node = nodes[ni]
            for ci, occ in s['cores']:
                if ci >= min(len(node['cores']), lay['cpn']) or ci < 0:
                    v(sim, 'C01', 'unknown_core', by_app, uid, s, seq)
                elif node['cores'][ci] is None or \
                        ci in (lay.get('blocked_cores') or []):
                    # (blocked according to the configuration the pilot was
                    # given - not only according to the node list the
                    # resource manager made of it)
                    v(sim, 'C01', 'down_used', by_app, uid, s, seq)
            for gi, occ in s['gpus']:
                if gi >= min(len(node['gpus']), lay['gpn']) or gi < 0:
                    v(sim, 'C01', 'unknown_gpu', by_app, uid, s, seq)
                elif node['gpus'][gi] is None or \
                        gi in (lay.get('blocked_gpus') or []):
                    v(sim, 'C01', 'down_used', by_app, uid, s, seq)
        # against what is held (including the new task itself)
        cores = dict()
        gpus  = dict()
        lfs   = dict()
        mem   = dict()
        allh  = dict(held)
        allh[uid] = slots
        for hu, hs in allh.items():
            for s in hs:
                ni = s['node_index']
                for ci, occ in s['cores']:
                    cores.setdefault((ni, ci), []).append(hu)
                for gi, occ in s['gpus']:
                    gpus[(ni, gi)] = gpus.get((ni, gi), 0.0) + occ
                    gpus.setdefault(('who', ni, gi), []).append(hu)
                lfs[ni] = lfs.get(ni, 0) + (s['lfs'] or 0)
                mem[ni] = mem.get(ni, 0) + (s['mem'] or 0)
        # a placement supplied by the application which overlaps with what
        # is held is the application's doing (DESIGN 4/C01): no violation, but
        # both parties are tainted and never serve as witness against the
        # scheduler later on
        if by_app == 'app':
            clash = set()
            for s in slots:
                ni = s['node_index']
                for ci, _ in s['cores']:
                    clash |= set(cores.get((ni, ci), []))
                for gi, _ in s['gpus']:
                    if gpus.get((ni, gi), 0) > 1.0 + 1e-9:
                        clash |= set(gpus.get(('who', ni, gi), []))
            clash.discard(uid)
            over = any(lfs.get(s['node_index'], 0) > (nodes.get(
                s['node_index'], {}).get('lfs') or 0) + 1e-9 and s['lfs']
                for s in slots) or any(mem.get(s['node_index'], 0) > (
                    nodes.get(s['node_index'], {}).get('mem') or 0) + 1e-9
                    and s['mem'] for s in slots)
            if clash or over:
                sim.probe('app_overlap')
                tainted.add(uid)
                tainted.update(clash)
            return
        for hu in list(cores.values()) + [gpus[k] for k in gpus
                                          if k and k[0] == 'who']:
            pass
        def clean(holders):
            return [h for h in holders if h == uid or h not in tainted]
        mine_c = {(s['node_index'], ci) for s in slots for ci, _ in s['cores']}
        mine_g = {(s['node_index'], gi) for s in slots for gi, _ in s['gpus']}
        mine_n = {s['node_index'] for s in slots}
        if tainted & set(allh):
            # capacity sums with tainted holders around are not conclusive
            taint_near = True
        else:
            taint_near = False
        for key in sorted(mine_c):
            if len(clean(cores[key])) > 1:
                v(sim, 'C01', 'core_shared', site_for(clean(cores[key]), uid),
                  uid, {'core': key, 'holders': cores[key]}, seq)
                break
        for key in sorted(mine_g):
            if gpus[key] > 1.0 + 1e-9 and not (
                    tainted & set(gpus[('who',) + key])):
                site = site_for(gpus[('who',) + key], uid)
                if site == 'sched:holder_preplaced':
                    # the holder placed by the application only has a share
                    # of this GPU (known finding: shares are not tracked)
                    for hu, hs in allh.items():
                        if hu == uid or not (descr.get(hu) or {}).get('slots'):
                            continue
                        for s_ in hs:
                            for gi, occ in s_['gpus']:
                                if (s_['node_index'], gi) == key and occ < 1:
                                    site = 'sched:holder_preplaced_gpu_share'
                if site == 'sched:holder_preplaced_gpu_share':
                    share_gpus.add(key)
                elif key in share_gpus:
                    # the scheduler's entry for this GPU already is wrong
                    # since the share of an application placement was
                    # released (same known finding, later consequence)
                    site = 'sched:holder_preplaced_gpu_share'
                v(sim, 'C01', 'gpu_over', site, uid,
                  {'gpu': key, 'sum': gpus[key],
                   'holders': gpus[('who',) + key]}, seq)
                break
        if taint_near:
            return
        for ni in sorted(mine_n):
            if ni not in nodes:
                continue
            # (capacities as configured, not as the node list reports them)
            cap_l = lay.get('lfs') or 0
            cap_m = lay.get('mem') or 0
            if lfs.get(ni, 0) > cap_l + 1e-9 and any(
                    (s['lfs'] or 0) > 0 for s in slots):
                v(sim, 'C01', 'lfs_over', 'sched', uid,
                  {'node': ni, 'sum': lfs[ni], 'cap': cap_l}, seq)
            if mem.get(ni, 0) > cap_m + 1e-9 and any(
                    (s['mem'] or 0) > 0 for s in slots):
                v(sim, 'C01', 'mem_over', 'sched', uid,
                  {'node': ni, 'sum': mem[ni], 'cap': cap_m}, seq)

    def site_for(holders, uid):
        others = [h for h in holders if h != uid]
        if not others:
            return 'sched:own_ranks'
        if any((descr.get(h) or {}).get('slots') for h in others):
            return 'sched:holder_preplaced'
        return 'sched'

    def check_shape(uid, slots, task, seq):
        # C02
        d = descr.get(uid) or task.get('description') or {}
        if d.get('slots'):
            return                      # supplied by the application
        want_r = d.get('ranks', 1)
        if len(slots) != want_r:
            v(sim, 'C02', 'n_ranks', 'sched', uid,
              {'ranks': want_r, 'got': len(slots)}, seq)
        c = max(d.get('cores_per_rank') or 1, 1)
        g = d.get('gpus_per_rank') or 0
        per_node = dict()
        for s in slots:
            ni = s['node_index']
            per_node[ni] = per_node.get(ni, 0) + 1
            if ni not in nodes or nodes[ni]['name'] != s['node_name']:
                v(sim, 'C02', 'node_exists', 'sched', uid, s, seq)
                continue
            idx = [ci for ci, _ in s['cores']]
            if len(idx) != c or len(set(idx)) != len(idx) or any(
                    i < 0 or i >= len(nodes[ni]['cores']) for i in idx):
                v(sim, 'C02', 'cores_exact', 'sched', uid,
                  {'want': c, 'got': s['cores']}, seq)
            if g >= 1:
                gi = [x for x, _ in s['gpus']]
                if len(gi) != g or len(set(gi)) != len(gi):
                    v(sim, 'C02', 'gpus_exact', 'sched', uid,
                      {'want': g, 'got': s['gpus']}, seq)
            elif g > 0 and sc.get('jsrun'):
                # resource sets: ceil(ranks * g) whole GPUs shared by the
                # ranks of the set - at least the requested share per rank
                gi = [x for x, _ in s['gpus']]
                if len(set(gi)) != len(gi) or \
                        sum(o for _, o in s['gpus']) < g - 1e-9:
                    v(sim, 'C02', 'gpus_exact', 'sched', uid,
                      {'want': g, 'got': s['gpus']}, seq)
            elif g > 0:
                if len(s['gpus']) != 1 or \
                        abs(s['gpus'][0][1] - g) > 1e-9:
                    v(sim, 'C02', 'gpus_exact', 'sched', uid,
                      {'want': g, 'got': s['gpus']}, seq)
            else:
                if s['gpus']:
                    v(sim, 'C02', 'gpus_exact', 'sched', uid,
                      {'want': 0, 'got': s['gpus']}, seq)
            if (s['lfs'] or 0) != (d.get('lfs_per_rank') or 0):
                v(sim, 'C02', 'lfs_exact', 'sched', uid,
                  {'want': d.get('lfs_per_rank'), 'got': s['lfs']}, seq)
            if (s['mem'] or 0) != (d.get('mem_per_rank') or 0):
                v(sim, 'C02', 'mem_exact', 'sched', uid,
                  {'want': d.get('mem_per_rank'), 'got': s['mem']}, seq)
        seen_c = dict()
        for s in slots:
            for ci, _ in s['cores']:
                key = (s['node_index'], ci)
                if key in seen_c:
                    v(sim, 'C02', 'cores_exact', 'sched', uid,
                      {'core': key, 'shared_by_ranks': True,
                       'want': c * want_r}, seq)
                    break
                seen_c[key] = True
            else:
                continue
            break
        rpn = d.get('ranks_per_node')
        if rpn:
            for ni, k in per_node.items():
                if k > rpn:
                    v(sim, 'C02', 'ranks_per_node', 'sched', uid,
                      {'limit': rpn, 'node': ni, 'got': k}, seq)
        tag = (d.get('tags') or {}).get('colocate')
        if tag is not None:
            tag = str(tag)
            if d.get('partition') is not None:
                # colocation tags are scoped by the partition a task names
                # (documented in the scheduler: "partition id becomes a part
                # of a co-locate tag")
                tag = '%s_%s' % (d['partition'], tag)
            mine = set(per_node)
            if tag in colo_nodes:
                if not mine <= colo_nodes[tag]:
                    v(sim, 'C02', 'colocate', 'sched', uid,
                      {'tag': tag, 'nodes': sorted(mine),
                       'allowed': sorted(colo_nodes[tag])}, seq)
            else:
                colo_nodes[tag] = set(mine)
        if per_rank_exceeds_node(d, lay):
            v(sim, 'C02', 'oversize_granted', 'sched', uid,
              {'descr': {k: d.get(k) for k in ('ranks', 'cores_per_rank',
               'gpus_per_rank', 'lfs_per_rank', 'mem_per_rank')}}, seq)

    # --------------------------------------------------------------------------
    # walk the history
    for ev in sim.events:
        kind = ev['kind']
        seq  = ev['seq']
        if kind == 'q_get' and ev.get('chan') == rpc.AGENT_SCHEDULING_QUEUE \
                and who_is(ev, 'agent_scheduling'):
            for uid, _ in ev['m'].get('things', []):
                handed[uid] = handed.get(uid, 0) + 1
        elif kind == 'q_put' and ev.get('chan') == rpc.AGENT_EXECUTING_QUEUE \
                and who_is(ev, 'agent_scheduling'):
            for task in ev.get('obj') or []:
                uid   = task['uid']
                slots = A.norm_slots(task.get('slots'),
                                     jsrun=bool(sc.get('jsrun')))
                by_app = 'app' if (descr.get(uid) or {}).get('slots') \
                    else 'sched'
                grants[uid] = grants.get(uid, 0) + 1
                sched_reports.setdefault(uid, []).append('started')
                check_conflicts(uid, slots, seq, by_app)
                check_shape(uid, slots, task, seq)
                held[uid] = slots
                st['max_held'] = max(st.get('max_held', 0), len(held))
        elif kind == 'pub' and ev.get('chan') == rpc.AGENT_UNSCHEDULE_PUBSUB:
            for uid, _ in ev['m'].get('things', []):
                releases[uid] = releases.get(uid, 0) + 1
                held.pop(uid, None)
        elif kind == 'pub' and ev.get('chan') == rpc.STATE_PUBSUB:
            for uid, state in ev['m'].get('things', []):
                if who_is(ev, 'agent_scheduling'):
                    if state in (rps.FAILED, rps.CANCELED):
                        sched_reports.setdefault(uid, []).append(state)
                if who_is(ev, 'agent_executing'):
                    if state == rps.AGENT_EXECUTING:
                        exec_announce[uid] = exec_announce.get(uid, 0) + 1
                    elif state == rps.FAILED:
                        exec_failed[uid] = exec_failed.get(uid, 0) + 1
                    elif state == rps.CANCELED:
                        exec_canceled[uid] = exec_canceled.get(uid, 0) + 1
        elif kind == 'q_put' and \
                ev.get('chan') == rpc.AGENT_STAGING_OUTPUT_QUEUE and \
                who_is(ev, 'agent_executing'):
            for task in ev.get('obj') or []:
                uid = task['uid']
                exec_handon.setdefault(uid, []).append(
                    {'target_state': task.get('target_state'),
                     'exit_code': task.get('exit_code'),
                     'has_exit_code': 'exit_code' in task,
                     'seq': seq})

    st['ledger'] = {'grants': grants, 'releases': releases, 'held': held,
                    'handed': handed, 'sched_reports': sched_reports,
                    'exec_announce': exec_announce, 'exec_handon': exec_handon,
                    'exec_failed': exec_failed,
                    'exec_canceled': exec_canceled}

    # child scheduler state ---------------------------------------------------
    child = None
    for label, parent, ch in sim.data.get('forks', []):
        if 'agent_scheduling' in label:
            child = ch
    st['child'] = child

    errors = [e for e in sim.events if e['kind'] in ('thread_error',)]
    st['thread_errors'] = errors

    if focus in ('full', 'sched'):
        oracle_c03(sim, sc, st, nodes)
        oracle_c04(sim, sc, st)
    if focus in ('full', 'exec'):
        oracle_c07(sim, sc, st)
    if focus in ('full',):
        oracle_c08(sim, sc, st)
    if focus == 'sched':
        oracle_c08_sched(sim, sc, st)
    # C02 oversize_rejected (at quiescence)
    if focus in ('full', 'sched'):
        for uid, d in descr.items():
            if d.get('slots') or d.get('ranks', 1) <= 0:
                continue
            if per_rank_exceeds_node(d, lay) and uid in handed:
                fin = [f.get('state') for f in st['finals'].get(uid, [])]
                if uid not in grants and rps.FAILED not in fin and \
                        rps.CANCELED not in fin:
                    v(sim, 'C02', 'oversize_not_rejected', 'sched', uid,
                      {'finals': fin}, len(sim.events))


def v(sim, prop, clause, site, uid, detail, seq):
    sim.violation(prop, clause, site, {'uid': uid, 'detail': detail,
                                       'at_seq': seq})


# ------------------------------------------------------------------------------
#
def oracle_c03(sim, sc, st, nodes):
    L = st['ledger']
    site = 'popen' if sc['layout']['spawner'] == 'POPEN' else \
        sc['layout']['spawner'].lower()
    for uid, n in sorted(L['grants'].items()):
        r = L['releases'].get(uid, 0)
        if r == 0:
            v(sim, 'C03', 'leak', cause_of(st, uid, site), uid,
              {'grants': n, 'releases': r}, len(sim.events))
        elif r > n:
            v(sim, 'C03', 'double_release', cause_of(st, uid, site), uid,
              {'grants': n, 'releases': r}, len(sim.events))
    child = st.get('child')
    if child is not None and not L['held']:
        # nobody holds anything: capacity must be back to the initial figures
        leaked = [u for u, n in L['grants'].items()
                  if L['releases'].get(u, 0) == 0]
        if not leaked:
            for node in child.nodes:
                ref = nodes.get(node['index'])
                if ref is None:
                    continue
                if list(node['cores']) != list(ref['cores']) or \
                        list(node['gpus']) != list(ref['gpus']) or \
                        (node.get('lfs') or 0) != (ref.get('lfs') or 0) or \
                        (node.get('mem') or 0) != (ref.get('mem') or 0):
                    v(sim, 'C03', 'capacity_drift', 'scheduler', None,
                      {'node': node['index'],
                       'cores': list(node['cores']),
                       'ref_cores': list(ref['cores']),
                       'gpus': list(node['gpus']),
                       'ref_gpus': list(ref['gpus']),
                       'lfs': [node.get('lfs'), ref.get('lfs')],
                       'mem': [node.get('mem'), ref.get('mem')],
                       'preplaced': sorted(st['preplaced'])},
                      len(sim.events))
                    break
            # ... and the scheduler must not believe otherwise (the counter
            # decides between "wait" and "can never be scheduled")
            cnt = getattr(child, '_active_cnt', 0)
            if cnt != 0:
                v(sim, 'C03', 'active_count_drift', 'scheduler', None,
                  {'active_cnt': cnt, 'preplaced': sorted(st['preplaced'])},
                  len(sim.events))


def cause_of(st, uid, site):
    '''how did this task end (call site class for the signature)'''
    plan = st['plans'].get(uid) or {}
    if site == 'noop':
        return 'noop'
    cancelled = any(uid in uids for _, _, uids in st['cancel_reqs'])
    d = (st['tasks'].get(uid) or {}).get('description') or {}
    tags = list()
    if uid in st['preplaced']:
        tags.append('preplaced')
    if cancelled:
        tags.append('cancel')
    if d.get('timeout'):
        tags.append('timeout')
    if plan.get('spawn_error'):
        tags.append('spawn_error')
    if not tags:
        tags.append('exit')
    return '%s:%s' % (site, '+'.join(tags))


# ------------------------------------------------------------------------------
#
def waitpool_uids(child):
    out = list()
    if child is None:
        return out
    for prio, pool in child._waitpool.items():
        out += list(pool.keys())
    return out


def oracle_c04(sim, sc, st):
    L     = st['ledger']
    lay   = sc['layout']
    child = st.get('child')
    pool  = waitpool_uids(child)
    descr = requested_descr(sc, st)
    for uid, reps in sorted(L['sched_reports'].items()):
        if len(reps) > 1:
            v(sim, 'C04', 'multi_report', 'scheduler', uid,
              {'reports': reps}, len(sim.events))
    for uid in sorted(L['handed']):
        reps = L['sched_reports'].get(uid, [])
        # cancelled at the intake filter of the scheduler component
        places = list(reps)
        if uid in pool:
            places.append('waiting')
        intake = [f for f in st['finals'].get(uid, [])
                  if f.get('state') == rps.CANCELED]
        if not places and intake:
            places.append('canceled_at_intake')
        if not places:
            v(sim, 'C04', 'lost', 'scheduler', uid,
              {'descr': short(descr.get(uid))}, len(sim.events))
        elif len(set(places)) > 1 or len(places) > 1:
            if 'waiting' in places or len(places) > 1:
                v(sim, 'C04', 'in_two_places', 'scheduler', uid,
                  {'places': places}, len(sim.events))
    # bounded liveness in unambiguous situations only ---------------------------
    idle = not L['held']
    def rs_shared(d):
        # JSRUN resource sets: ranks sharing a GPU are packed into one
        # resource set on one node - what fits then is not decided by the
        # plain per-rank accounting: not judged
        g = d.get('gpus_per_rank') or 0
        return bool(sc.get('jsrun')) and g != int(g)
    plain = [u for u in pool if 'colocate' not in (descr[u].get('tags') or
                                                   {})
        and not descr[u].get('named_env')
        and not descr[u].get('slots') and not rs_shared(descr[u])]
    if idle and pool and len(plain) == len(pool):
        fit = [u for u in pool if fits_idle(descr[u], lay)]
        if len(pool) == 1 and fit:
            v(sim, 'C04', 'alone_not_started', 'scheduler', pool[0],
              {'descr': short(descr[pool[0]]), 'layout': short_lay(lay),
               'active_cnt': getattr(child, '_active_cnt', None)},
              len(sim.events))
        elif len(fit) == len(pool):
            v(sim, 'C04', 'idle_starts_none', 'scheduler', pool[0],
              {'pool': [short(descr[u]) for u in pool],
               'layout': short_lay(lay),
               'active_cnt': getattr(child, '_active_cnt', None)},
              len(sim.events))
        for u in pool:
            if u not in fit:
                v(sim, 'C04', 'unfit_not_failed', 'scheduler', u,
                  {'descr': short(descr[u]), 'layout': short_lay(lay),
                   'active_cnt': getattr(child, '_active_cnt', None)},
                  len(sim.events))
    # a task that fits the idle pilot is never failed for lack of resources
    for uid, fins in sorted(st['finals'].items()):
        for f in fins:
            if f.get('state') != rps.FAILED:
                continue
            exc = '%s %s' % (f.get('exception'), f.get('exception_detail'))
            by_sched = rps.FAILED in L['sched_reports'].get(uid, [])
            if 'can never be scheduled' in exc or 'does not fit' in exc or \
                    by_sched:
                # (whatever the scheduler gives as reason: a plain task which
                # fits the idle pilot is not failed by the scheduler)
                d = descr.get(uid) or {}
                if 'colocate' not in (d.get('tags') or {}) and \
                        not d.get('slots') and not rs_shared(d) and \
                        fits_idle(d, lay):
                    v(sim, 'C04', 'fit_failed', 'scheduler', uid,
                      {'descr': short(d), 'layout': short_lay(lay),
                       'exc': exc[:200]}, len(sim.events))


def short(d):
    if not d:
        return d
    return {k: d.get(k) for k in ('ranks', 'cores_per_rank', 'gpus_per_rank',
                                  'lfs_per_rank', 'mem_per_rank',
                                  'ranks_per_node', 'tags', 'priority',
                                  'named_env') if d.get(k)}


def short_lay(lay):
    return {k: lay[k] for k in ('nodes', 'cpn', 'gpn', 'lfs', 'mem',
                                'blocked_cores', 'blocked_gpus', 'scattered')}


# ------------------------------------------------------------------------------
#
def oracle_c07(sim, sc, st):
    L = st['ledger']
    accepted = set()
    for ev in sim.events:
        if ev['kind'] == 'q_get' and \
                ev.get('chan') == rpc.AGENT_EXECUTING_QUEUE and \
                'agent_executing' in str(ev.get('who')):
            for uid, _ in ev['m'].get('things', []):
                accepted.add(uid)
    site0 = sc['layout']['spawner'].lower()
    for uid in sorted(accepted):
        site = cause_of(st, uid, site0)
        ann  = L['exec_announce'].get(uid, 0)
        hon  = L['exec_handon'].get(uid, [])
        fail = L['exec_failed'].get(uid, 0)
        canc = L['exec_canceled'].get(uid, 0)
        rel  = L['releases'].get(uid, 0)
        # a task cancelled at the executor's intake filter is never accepted
        # by work(): announced 0 times, CANCELED published once
        if ann == 0 and canc and not hon and not fail:
            sim.probe('exec_intake_cancel')
            continue
        if ann != 1:
            v(sim, 'C07', 'exec_announced', site, uid, {'n': ann},
              len(sim.events))
        n_on = len(hon) + fail
        if n_on == 0:
            v(sim, 'C07', 'left_behind', site, uid,
              {'announced': ann, 'canceled_notes': canc, 'released': rel},
              len(sim.events))
        elif n_on > 1:
            kinds = [h['target_state'] for h in hon] + ['FAILED'] * fail
            clause = 'handed_on_twice'
            if rps.CANCELED in kinds and (rps.DONE in kinds or
                                          rps.FAILED in kinds):
                clause = 'cancel_and_collect'
            v(sim, 'C07', clause, site, uid, {'hand_ons': kinds},
              len(sim.events))
        if rel != 1:
            v(sim, 'C07', 'released', site, uid, {'n': rel, 'hand_ons':
              [h['target_state'] for h in hon], 'failed': fail},
              len(sim.events))
        for h in hon:
            noop = sc['layout']['spawner'] == 'NOOP'    # no process at all
            if not h['target_state'] or not (h['has_exit_code'] or noop):
                v(sim, 'C07', 'outcome_missing', site, uid, h,
                  len(sim.events))
    for e in sim.events:
        if e['kind'] == 'log_exception' and \
                'agent_executing' in str(e.get('who')) and \
                'serialize' in str(e.get('exc')):
            v(sim, 'C07', 'not_serialisable', site0, None,
              {'exc': e.get('exc'), 'msg': e.get('msg')}, e['seq'])
            break


# ------------------------------------------------------------------------------
#
def final_state_of(st, uid):
    '''what the client would conclude for this task'''
    states = list()
    for t in st['collected'].get(uid, []):
        states.append(t.get('target_state'))
    for f in st['finals'].get(uid, []):
        states.append(f.get('state'))
    return states


def oracle_c08(sim, sc, st):
    L = st['ledger']
    named = set()
    for _, _, uids in st['cancel_reqs']:
        named |= set(uids)
    for uid in st['order']:
        plan = st['plans'].get(uid) or {}
        d    = st['tasks'][uid]['description']
        outs = final_state_of(st, uid)
        site = cause_of(st, uid, sc['layout']['spawner'].lower())
        if uid not in named:
            # bystander: outcome is a function of the workload alone
            if d.get('timeout') or d.get('named_env') or \
                    d.get('ranks', 1) <= 0:
                continue
            if not outs:
                # may legitimately still wait (does not fit / blocked);
                # C04 decides those.  Lost bystanders: granted but vanished,
                # or handed to the scheduler and neither granted nor waiting
                if uid in L['grants'] and uid not in L['held']:
                    v(sim, 'C08', 'bystander_lost', site, uid,
                      {'grants': L['grants'].get(uid)}, len(sim.events))
                elif uid in L['handed'] and uid not in L['grants'] and \
                        uid not in waitpool_uids(st.get('child')) and \
                        st['cancel_reqs']:
                    v(sim, 'C08', 'bystander_lost', 'scheduler', uid,
                      {'handed': True, 'waiting': False}, len(sim.events))
                continue
            want = None
            if uid in L['grants']:
                if sc['layout']['spawner'] == 'NOOP':
                    want = rps.DONE
                elif plan.get('spawn_error'):
                    want = rps.FAILED
                else:
                    want = rps.DONE if plan.get('rc', 0) == 0 else rps.FAILED
                if rps.CANCELED in outs:
                    v(sim, 'C08', 'bystander_canceled', site, uid,
                      {'outcomes': outs}, len(sim.events))
                elif want not in outs and \
                        not launch_refused(sim, uid):
                    v(sim, 'C08', 'bystander_state', site, uid,
                      {'outcomes': outs, 'want': want}, len(sim.events))
        else:
            if uid in L['grants'] and L['releases'].get(uid, 0) != 1 and \
                    sc['layout']['spawner'] != 'NOOP':
                v(sim, 'C08', 'named_freed_not_once', site, uid,
                  {'releases': L['releases'].get(uid, 0),
                   'outcomes': outs}, len(sim.events))
            if len([o for o in outs if o in FINAL]) > 1 and \
                    len(set(outs)) > 1:
                v(sim, 'C08', 'named_two_outcomes', site, uid,
                  {'outcomes': outs}, len(sim.events))
            if not outs:
                if uid in waitpool_uids(st.get('child')):
                    v(sim, 'C08', 'waitpool_residue', 'scheduler', uid, {},
                      len(sim.events))
                continue
    # named tasks whose process was alive when the request reached the executor
    for seq, t_req, uids in st['cancel_reqs']:
        # delivery of this request to the executor
        dseq = None
        for ev in sim.events[seq:]:
            if ev['kind'] == 'deliver' and \
                    ev.get('chan') == rpc.CONTROL_PUBSUB and \
                    'agent_executing' in str(ev.get('to')) and \
                    set(ev['m'].get('uids') or []) == set(uids):
                dseq = ev['seq']
                break
        if dseq is None:
            continue
        for uid in uids:
            spawn = exit_ = None
            for ev in sim.events:
                if ev.get('tag') == uid and ev['kind'] == 'proc_spawn':
                    spawn = ev['seq']
                if ev.get('tag') == uid and ev['kind'] == 'proc_exit':
                    exit_ = ev
            outs = final_state_of(st, uid)
            if spawn is not None and spawn < dseq and exit_ is not None \
                    and exit_['seq'] > dseq and exit_.get('why') in (
                        'time', 'race') and outs and \
                    rps.CANCELED not in outs:
                # the process ran to its natural end although the cancel
                # reached the executor while it was alive
                ext = sim.events[exit_['seq']]['t'] - sim.events[dseq]['t']
                if ext > 0.5:
                    v(sim, 'C08', 'named_not_canceled',
                      cause_of(st, uid, 'popen'), uid,
                      {'outcomes': outs, 'ran_on_for': round(ext, 3)},
                      len(sim.events))
            elif spawn is not None and spawn > dseq and exit_ is not None \
                    and exit_.get('why') == 'time' and outs:
                # the request reached the executor before the process was
                # spawned ("between placement and launch"): the process was
                # started nevertheless and ran to its natural end - whatever
                # state the task is given afterwards, it was not stopped
                ext = sim.events[exit_['seq']]['t'] - sim.events[spawn]['t']
                if ext > 0.45:
                    v(sim, 'C08', 'named_not_canceled',
                      cause_of(st, uid, 'popen') + ':before_spawn', uid,
                      {'outcomes': outs, 'ran_for': round(ext, 3)},
                      len(sim.events))


def launch_refused(sim, uid):
    for e in sim.events:
        if e['kind'] == 'log_exception' and 'no launcher' in str(e.get('exc')):
            return True
    return False


def oracle_c08_sched(sim, sc, st):
    '''scheduler focus: named tasks in the wait pool are removed; bystanders
    stay'''
    named = set()
    for _, _, uids in st['cancel_reqs']:
        named |= set(uids)
    pool = waitpool_uids(st.get('child'))
    for uid in pool:
        if uid in named:
            v(sim, 'C08', 'waitpool_residue', 'scheduler', uid, {},
              len(sim.events))
    # a named task which the scheduler had taken and never placed ends as
    # CANCELED - it does not just disappear from the wait pool
    L0 = st['ledger']
    for uid in sorted(named):
        if uid in L0['handed'] and uid not in L0['grants'] and \
                uid not in pool and not st['finals'].get(uid):
            v(sim, 'C08', 'named_vanished', 'scheduler', uid, {},
              len(sim.events))
    for uid, fins in st['finals'].items():
        if uid not in named:
            for f in fins:
                if f.get('state') == rps.CANCELED:
                    v(sim, 'C08', 'bystander_canceled', 'scheduler', uid, {},
                      len(sim.events))
    # a named task which the scheduler had in its hands when the request
    # reached it is not placed later on
    handed_t, grant_t = dict(), dict()
    for ev in sim.events:
        if ev['kind'] == 'q_get' and \
                ev.get('chan') == rpc.AGENT_SCHEDULING_QUEUE and \
                'agent_scheduling' in str(ev.get('who')):
            for uid, _ in ev['m'].get('things', []):
                handed_t.setdefault(uid, ev['t'])
        elif ev['kind'] == 'q_put' and \
                ev.get('chan') == rpc.AGENT_EXECUTING_QUEUE and \
                'agent_scheduling' in str(ev.get('who')):
            for uid, _ in ev['m'].get('things', []):
                grant_t.setdefault(uid, ev['t'])
    for ev in sim.events:
        if ev['kind'] == 'deliver' and \
                ev.get('chan') == rpc.CONTROL_PUBSUB and \
                'agent_scheduling' in str(ev.get('to')) and \
                ev['m'].get('cmd') == 'cancel_tasks':
            for uid in ev['m'].get('uids') or []:
                if uid in handed_t and handed_t[uid] <= ev['t'] and \
                        uid in grant_t and grant_t[uid] > ev['t'] + 0.5:
                    v(sim, 'C08', 'named_placed_later', 'scheduler', uid,
                      {'request_at': ev['t'], 'placed_at': grant_t[uid]},
                      len(sim.events))
    L = st['ledger']
    if st['cancel_reqs']:
        for uid in st['order']:
            d = st['tasks'][uid]['description']
            if uid in named or d.get('ranks', 1) <= 0:
                continue
            if uid in L['handed'] and uid not in L['grants'] and \
                    uid not in pool and uid not in st['finals']:
                v(sim, 'C08', 'bystander_lost', 'scheduler', uid,
                  {'handed': True, 'waiting': False}, len(sim.events))
