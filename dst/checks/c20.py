'''
C20 - raptor workers and masters account for every request.

World R: the real raptor Master and DefaultWorker (request callback, allocator,
per-request forked dispatch process + forked worker process, result watcher,
result callback), the real Worker._dispatch_func/_eval/_exec/_proc/_shell, and
the real agent scheduler (raptor forwarding: to_raptor routing, register /
unregister of the raptor queue) on a simulated pilot side.  Master, worker and
every forked request are separate simulated processes with their own
os.environ, cwd and stdio.
'''

import os
import copy

import radical.utils as ru

from ..worlds import common as C
from ..worlds import agent  as A
from ..       import kernel as K
from ..       import net    as N
from ..       import prims  as P

rp, rps, rpc, rpu = C.rp, C.rps, C.rpc, C.rpu

PROP = 'C20'
MASTER = 'raptor.0000'
WORKER = 'raptor.0000.0000'
SIMTIME = P.SimTime()

FUNC_PAYLOADS = ['pl_ret', 'pl_print', 'pl_raise', 'pl_env', 'pl_sleep',
                 'pl_stdio']


def gen(rng, tier):
    n_cores = rng.choice([1, 2, 4])
    n_gpus  = rng.choice([0, 0, 1, 2])
    reqs = list()
    for i in range(rng.randint(2, 10)):
        mode = rng.choice(['func', 'func', 'func', 'eval', 'exec', 'proc',
                           'shell', 'executable', 'meth'])
        r = {'mode': mode, 'cores': rng.randint(1, n_cores),
             'gpus': rng.randint(0, n_gpus),
             'at': round(rng.choice([0.0, 0.0, rng.uniform(0, 2.0)]), 2)}
        if mode in ('func', 'meth'):
            r['payload'] = rng.choice(FUNC_PAYLOADS)
            r['sleep']   = rng.choice([0.0, 0.1, 0.5, 1.0])
        elif mode == 'eval':
            r['payload'] = rng.choice(['val', 'print', 'zero', 'env'])
        elif mode == 'exec':
            r['payload'] = rng.choice(['ret', 'print', 'raise'])
        elif mode == 'shell':
            # (a request may bring environment variables of its own; a later
            # one must not see them)
            r['payload'] = rng.choice(['true', 'false', 'echo', 'setenv',
                                       'getenv', 'getenv'])
        elif mode == 'proc':
            r['payload'] = rng.choice(['true', 'false', 'echo'])
        if mode in ('func', 'meth') and rng.random() < 0.3:
            r['timeout'] = rng.choice([0.1, 0.5, 1.0])
            if rng.random() < 0.5:
                r['sleep'] = r['timeout']        # completion vs. timeout
        reqs.append(r)
    # some requests enter through the master's task service (Master._run_task,
    # as called by code running in a worker): drawn last so that the request
    # streams of earlier seeds stay what they were
    for r in reqs:
        if rng.random() < 0.4:
            r['no_env'] = True           # request without own environment
    for r in reqs:
        if r['mode'] not in ('executable', 'meth') and rng.random() < 0.2:
            r['via'] = 'service'
            r['cores'], r['gpus'] = 1, 0
    ops = list()
    if rng.random() < 0.2:
        ops.append([round(rng.uniform(0.5, 3.0), 2), 'late_master'])
    sc_ = _gen_tail(rng, n_cores, n_gpus, reqs, ops)
    # the driver plays the pilot's executor for executable requests: they come
    # back to the master (`raptor_state_update`), also those which code in a
    # worker asked the master to run (no `raptor_id`).  Drawn last.
    sc_['exec_return'] = rng.random() < 0.5
    if sc_['exec_return'] and not sc_['insert_fail']:
        # (not together with the injected publish failure: the service call
        # then ends with that error for its caller)
        for r in reqs:
            if r['mode'] == 'executable' and rng.random() < 0.4:
                r['via'] = 'service'
                r['cores'], r['gpus'] = 1, 0
    return sc_


def _gen_tail(rng, n_cores, n_gpus, reqs, ops):
    return {'n_cores': n_cores, 'n_gpus': n_gpus, 'reqs': reqs, 'ops': ops,
            'late_master': rng.random() < 0.3,
            'delay_max': rng.choice([0.0, 0.0, 0.05]),
            'stall': rng.choice([0.0, 0.0, 0.02, 0.05]),
            'fork_fail': rng.choice([0.0, 0.0, 0.0, 0.1, 0.3]),
            'slow_service': rng.choice([0.0, 0.0, 0.2]),
            # requests submitted right when the master registers its queue
            # with the scheduler, and line level pre-emption in the scheduler
            # a cancel request naming the requests which wait in the
            # scheduler's raptor backlog (master not yet registered)
            'cancel_backlog': rng.random() < 0.3,
            # the master's publication of an executable request to the agent
            # fails (transport error): the batch it came in is FAILED
            'insert_fail': rng.choice([0.0, 0.0, 0.5]),
            'at_register': rng.choice([0, 0, 1, 3]),
            'preempt': rng.choice([0.0, 0.0, 0.1, 0.3])}


# ------------------------------------------------------------------------------
# payloads (attached to the worker instance; they run in forked sim processes)
#
def attach_payloads(worker):
    '''`worker` is the DefaultWorker *class*: requests may be served before
    the constructor returns'''
    import radical.pilot.raptor.worker as wmod
    import sys as rsys

    def pl_ret(x=7, sleep=0.0):
        if sleep:
            SIMTIME.sleep(sleep)
        return x * 2

    def pl_print(x=7, sleep=0.0):
        if sleep:
            SIMTIME.sleep(sleep)
        print('out:%s' % x)
        rsys.stderr.write('err:%s\n' % x)
        return x

    def pl_raise(x=7, sleep=0.0):
        if sleep:
            SIMTIME.sleep(sleep)
        raise ValueError('payload %s failed' % x)

    def pl_env(x=7, sleep=0.0):
        wmod.os.environ['C20_LEAK'] = str(x)
        wmod.os.environ.pop('HOME', None)
        if sleep:
            SIMTIME.sleep(sleep)
        return wmod.os.environ.get('C20_LEAK')

    def pl_sleep(x=7, sleep=0.0):
        SIMTIME.sleep(max(sleep, 0.05))
        return x

    def pl_stdio(x=7, sleep=0.0):
        import io
        rsys.stdout = io.StringIO()          # never restored by the payload
        if sleep:
            SIMTIME.sleep(sleep)
        return x

    for f in (pl_ret, pl_print, pl_raise, pl_env, pl_sleep, pl_stdio):
        setattr(worker, f.__name__, staticmethod(f))


def make_descr(i, r):
    uid = 'req.%04d' % i
    d = {'uid': uid, 'raptor_id': MASTER, 'ranks': 1, 'cores_per_rank': 1}
    if not r.get('no_env'):
        d['environment'] = {'C20_REQ': uid}
    mode = r['mode']
    if mode in ('func', 'meth'):
        d['mode'] = rp.TASK_FUNCTION if mode == 'func' else rp.TASK_METHOD
        d['function'] = r['payload']
        d['args'] = [i]
        d['kwargs'] = {'sleep': r.get('sleep', 0.0)}
    elif mode == 'eval':
        d['mode'] = rp.TASK_EVAL
        d['code'] = {'val'  : '6 * 7',
                     'print': "print('out:eval') or 3",
                     'zero' : '1 / 0',
                     'env'  : "os.environ.__setitem__('C20_LEAK', 'e') or 1"
                     }[r['payload']]
    elif mode == 'exec':
        d['mode'] = rp.TASK_EXEC
        d['code'] = {'ret'  : 'return 5',
                     'print': "print('out:exec')\nreturn 1",
                     'raise': "raise ValueError('exec failed')"}[r['payload']]
    elif mode == 'proc':
        d['mode'] = rp.TASK_PROC
        d['executable'] = {'true': '/bin/true', 'false': '/bin/false',
                           'echo': '/bin/echo'}[r['payload']]
        d['arguments'] = ['out:proc'] if r['payload'] == 'echo' else []
    elif mode == 'shell':
        d['mode'] = rp.TASK_SHELL
        d['command'] = {'true': 'true', 'false': 'false',
                        'echo': 'echo out:shell',
                        'setenv': 'echo "set:[$C20_SHELL]"',
                        'getenv': 'echo "env:[$C20_SHELL]"'}[r['payload']]
        if r['payload'] == 'setenv':
            d['environment'] = {'C20_SHELL': 'x'}
    else:
        d['mode'] = rp.TASK_EXECUTABLE
        d['executable'] = '/bin/true'
    if r.get('timeout'):
        d['timeout'] = r['timeout']
    return d


def make_request(i, r, side):
    d = make_descr(i, r)
    uid, mode = d['uid'], r['mode']
    td = rp.TaskDescription(d)
    td.verify()
    task = A.make_task(side, uid, td.as_dict(),
                       state=rps.AGENT_SCHEDULING_PENDING)
    if mode == 'meth':
        # (`method` is not part of the TaskDescription schema)
        task['description']['method'] = r['payload']
    task['cores'] = r['cores']
    task['gpus']  = r['gpus']
    return task


def expected(i, r):
    '''-> dict(ok=bool, val=, out=substring or None) or None if not judged'''
    mode, pl = r['mode'], r.get('payload')
    timed_out = bool(r.get('timeout')) and r.get('sleep', 0.0) > r['timeout']
    racy = bool(r.get('timeout')) and abs(r.get('sleep', 0.0) -
                                          r['timeout']) < 0.11
    if racy:
        return {'racy': True}
    if timed_out:
        return {'ok': False, 'timeout': True}
    if mode in ('func', 'meth'):
        return {'pl_ret'  : {'ok': True,  'val': i * 2},
                'pl_print': {'ok': True,  'val': i, 'out': 'out:%s' % i,
                             'err': 'err:%s' % i},
                'pl_raise': {'ok': False, 'exc': 'ValueError'},
                'pl_env'  : {'ok': True,  'val': str(i)},
                'pl_sleep': {'ok': True,  'val': i},
                'pl_stdio': {'ok': True,  'val': i}}[pl]
    if mode == 'eval':
        return {'val'  : {'ok': True, 'val': 42},
                'print': {'ok': True, 'val': 3, 'out': 'out:eval'},
                'zero' : {'ok': False, 'exc': 'ZeroDivisionError'},
                'env'  : {'ok': True, 'val': 1}}[pl]
    if mode == 'exec':
        return {'ret'  : {'ok': True, 'val': 5},
                'print': {'ok': True, 'val': 1, 'out': 'out:exec'},
                'raise': {'ok': False, 'exc': 'ValueError'}}[pl]
    if mode in ('proc', 'shell'):
        return {'true' : {'ok': True},
                'false': {'ok': False},
                'echo' : {'ok': True, 'out': 'out:%s' % mode},
                'setenv': {'ok': True, 'out': 'set:[x]'},
                'getenv': {'ok': True, 'out': 'env:[]',
                           'clause': 'env_restored'}}[pl]
    return None


class _Server(object):
    '''ru.zmq.Server stub (task service of the master: not exercised)'''
    addr = 'sim://task_service'

    def __init__(self, *a, **k):
        pass

    def __deepcopy__(self, memo):
        return self

    def register_request(self, name, cb, *a, **k):
        self.__dict__.setdefault('handlers', dict())[name] = cb

    def start(self):
        pass

    def stop(self):
        pass


# ------------------------------------------------------------------------------
#
def run(seed, scenario, trace=None, tier='quick', prop=PROP):
    res = _run(seed, scenario, trace, tier)
    res['violations'] = [x for x in res['violations']
                         if x['property'] == prop]
    if res['status'] == 'violation' and not res['violations']:
        res['status'] = 'ok'
    return res


def _run(seed, scenario, trace=None, tier='quick'):

    sc = scenario

    def build(sim, cfg):

        st = {'side': None, 'master': None, 'worker': None, 'allocs': [],
              'held': {}, 'results': {}, 'exec_routed': {}, 'tasks': {},
              'env_before': None, 'worker_proc': None, 'dispatched': set(),
              'proc_uid': {}, 'fork_failed': set(), 'cur_req': None,
              'svc': {}, 'extra': {}, 'canceled': set(),
              'master_failed': {}, 'insert_failed': False,
              'master_started': False}
        sim.data['c20'] = st

        def os_process(name, environ, cwd):
            proc = sim.new_process(name, parent=sim.root_proc)
            proc.ctx = {'environ': dict(environ), 'cwd': cwd,
                        'stdout': _real[0], 'stderr': _real[1]}
            return proc

        import sys as _rsys
        _real = (_rsys.stdout, _rsys.stderr)

        def _save(proc):
            if 'stdout' in proc.ctx:
                proc.ctx['stdout'], proc.ctx['stderr'] = \
                    _rsys.stdout, _rsys.stderr

        def _restore(proc):
            _rsys.stdout = proc.ctx.get('stdout', _real[0])
            _rsys.stderr = proc.ctx.get('stderr', _real[1])
        sim.ctx_hooks = [(_save, _restore)]

        if sc.get('slow_service'):
            # the task service threads of the master are slow
            sim.slow['svc.'] = (sc['slow_service'], 0.5)

        if sc.get('fork_fail'):
            # fork() of a request process fails (EAGAIN); the request then
            # is a legitimately failed one: it must come back once, FAILED,
            # and must hand its cores and GPUs back
            def fork_fault(label):
                if label.startswith(WORKER):
                    uid = st.get('cur_req')
                elif label == '_worker_proc':
                    uid = st['proc_uid'].get(sim.cur_proc().pid)
                else:
                    return False
                if uid and sim.ch.coin(sc['fork_fail'], 'fork_fail'):
                    st['fork_failed'].add(uid)
                    return True
                return False
            sim.data['fork_fault'] = fork_fault

        def driver():
            root = sim.data['tmp']
            lay = {'nodes': 1, 'cpn': 4, 'gpn': 0, 'lms': ['FORK'],
                   'spawner': 'STUB'}
            side = A.make_pilot(sim, lay, root)
            st['side'] = side
            net = N.net()
            net.delay_max = sc['delay_max']
            reg = side.reg
            rcfg = reg['rcfg']
            rcfg['raptor'] = {'hb_delay': 5, 'hb_timeout': 500,
                              'hb_frequency': 1000}
            reg['rcfg'] = rcfg
            side.session._rcfg = ru.Config(from_dict=rcfg)
            scfg = reg['cfg']
            scfg['log_lvl'] = 'ERROR'
            reg['cfg'] = scfg
            reg['raptor.%s.cfg' % WORKER] = {'cores_per_rank': sc['n_cores'],
                                             'gpus_per_rank' : sc['n_gpus']}
            A.start_components(side, ['agent_scheduling'])
            sim.freeze('Idler')

            import radical.pilot.raptor.master as mmod
            import radical.pilot.raptor.worker as wmod
            import radical.pilot.raptor.worker_default as wdmod
            class _S(object):
                _DEFAULT = rp.Session._DEFAULT

                def __new__(cls, *a, **k):
                    return side.session
            mmod.Session = _S
            C.RUP.zmq.Server = _Server
            C.RUP.zmq.Client = _Server

            base_env = {'RP_PILOT_ID': A.PID, 'RP_SESSION_ID': A.SID,
                        'RP_PILOT_SANDBOX': side.psbox,
                        'RP_SESSION_SANDBOX': side.cfg['session_sandbox'],
                        'RP_RESOURCE_SANDBOX': side.cfg['resource_sandbox'],
                        'RP_REGISTRY_ADDRESS': side.reg_url,
                        'RP_RANKS': '1', 'RP_RANK': '0',
                        'HOME': '/home/sim', 'PATH': '/usr/bin:/bin'}

            # master -------------------------------------------------------------
            if not getattr(mmod.Master, '_dst_publish', None):
                mmod.Master._dst_publish = mmod.Master.publish

            def m_publish(self, pubsub, msg, topic=None):
                if sc.get('insert_fail') and isinstance(msg, dict) and \
                        msg.get('cmd') == 'insert' and \
                        sim.ch.coin(sc['insert_fail'], 'insert_fail'):
                    sim.fault('master_publish_fail')
                    st['insert_failed'] = True
                    raise RuntimeError('injected: publish failed')
                return mmod.Master._dst_publish(self, pubsub, msg, topic)
            mmod.Master.publish = m_publish

            def on_master_pub(ev):
                if ev['kind'] == 'pub' and ev.get('chan') == rpc.STATE_PUBSUB \
                        and ev.get('who') == 'master':
                    for uid, state in ev['m'].get('things', []):
                        if state == rps.FAILED:
                            st['master_failed'][uid] = \
                                st['master_failed'].get(uid, 0) + 1
            sim.listeners.append(on_master_pub)

            def master_main():
                m = mmod.Master()
                st['master'] = m
                m.start()
            menv = dict(base_env, RP_TASK_ID=MASTER, RP_TASK_NAME=MASTER,
                        RP_TASK_SANDBOX='%s/%s' % (side.psbox, MASTER))
            mproc = os_process('master', menv, side.psbox)

            # worker -------------------------------------------------------------
            attach_payloads(wdmod.DefaultWorker)
            instrument(wdmod.DefaultWorker)

            def worker_main():
                st['env_before'] = dict(wmod.os.environ)
                w = wdmod.DefaultWorker(MASTER)
                st['worker'] = w
                w.start()
                w.join()
            wenv = dict(base_env, RP_TASK_ID=WORKER, RP_TASK_NAME=WORKER,
                        RP_TASK_SANDBOX='%s/%s' % (side.psbox, WORKER))
            os.makedirs(wenv['RP_TASK_SANDBOX'], exist_ok=True)
            wproc = os_process('worker', wenv, wenv['RP_TASK_SANDBOX'])
            st['worker_proc'] = wproc

            if not sc['late_master']:
                sim.spawn(master_main, 'master.main', proc=mproc,
                          group='master')
                sim.sleep(1.5)
            sim.spawn(worker_main, 'worker.main', proc=wproc, group='worker')

            # collectors ---------------------------------------------------------
            def collect(qname, store):
                g = N.Getter(qname, url=reg['bridges.%s' % qname]['addr_get'])
                while True:
                    for t in g.get_nowait(timeout=500) or []:
                        store.setdefault(t['uid'], []).append(t)
            sim.spawn(lambda: collect(rpc.AGENT_STAGING_OUTPUT_QUEUE,
                                      st['results']), 'coll.out',
                      group='driver')
            sim.spawn(lambda: collect(rpc.AGENT_STAGING_INPUT_QUEUE,
                                      st['exec_routed']), 'coll.in',
                      group='driver')

            def executor():
                # the pilot's executor for executable requests: what
                # AgentExecutingComponent.advance_tasks publishes when such a
                # task has run (origin raptor, or owned by a master)
                spub = N.Publisher(rpc.STATE_PUBSUB, url=reg[
                    'bridges.%s' % rpc.STATE_PUBSUB]['addr_pub'])
                seen = set()
                while True:
                    sim.sleep(0.2)
                    for uid, lst in sorted(st['exec_routed'].items()):
                        if uid in seen:
                            continue
                        seen.add(uid)
                        t = copy.deepcopy(lst[0])
                        t['exit_code'] = 0
                        t['state'] = rps.AGENT_STAGING_OUTPUT_PENDING
                        sim.probe('executable_returned')
                        spub.put(rpc.STATE_PUBSUB, {
                            'cmd': 'raptor_state_update', 'arg': [t]})
            if sc.get('exec_return'):
                sim.spawn(executor, 'executor.stub', group='driver')

            put = N.Putter(rpc.AGENT_SCHEDULING_QUEUE, url=reg[
                'bridges.%s' % rpc.AGENT_SCHEDULING_QUEUE]['addr_put'])

            def svc_call(i):
                # a thread of the master's task service (ru.zmq.Server) serves
                # one `run_task` request: returns when the result is in
                sim.block(lambda: st['master'] is not None, 120.0,
                          what='master')
                d = make_descr(i, sc['reqs'][i])
                del d['uid']
                if sc.get('exec_return'):
                    # (as code in a worker builds it: no owner named)
                    d.pop('raptor_id', None)
                run_task = st['master']._task_service.handlers['run_task']
                sim.probe('service_request')
                ret = run_task(d)
                st['svc'][i]['uid'] = ret['uid']
                st['svc'][i]['ret'] = ret
                sim.log('svc_return', i=i, uid=ret['uid'],
                        exit_code=ret.get('exit_code'))

            # requests which arrive while the scheduler handles the master's
            # queue registration
            extra = list()
            if sc.get('at_register'):
                seen = {'n': 0}

                def on_reg(ev):
                    if ev['kind'] == 'pub' and \
                            ev['m'].get('cmd') == 'register_raptor_queue':
                        seen['n'] += 1
                sim.listeners.append(on_reg)

                def at_register():
                    sim.block(lambda: seen['n'] > 0, 120.0, what='register')
                    for k in range(sc['at_register']):
                        i = len(sc['reqs']) + k
                        r = {'mode': 'func', 'cores': 1, 'gpus': 0,
                             'payload': 'pl_ret', 'sleep': 0.0, 'at': 0.0}
                        extra.append(r)
                        task = make_request(i, r, side)
                        st['tasks'][task['uid']] = i
                        st['extra'][i] = r
                        sim.probe('request_at_register')
                        put.put([task])
                sim.spawn(at_register, 'at_register', group='driver')

            if sc.get('cancel_backlog') and sc['late_master']:
                def cancel_backlog():
                    sim.sleep(0.4)
                    if st['master_started']:
                        return
                    uids = sorted(u for u, i in st['tasks'].items()
                                  if sc['reqs'][i]['at'] == 0.0 and
                                  sc['reqs'][i]['mode'] != 'executable')
                    if len(uids) < 2:
                        return
                    sim.fault('cancel_backlog')
                    st['canceled'] = set(uids)
                    cpub = N.Publisher(rpc.CONTROL_PUBSUB, url=reg[
                        'bridges.%s' % rpc.CONTROL_PUBSUB]['addr_pub'])
                    cpub.put(rpc.CONTROL_PUBSUB, {
                        'cmd': 'cancel_tasks',
                        'arg': {'uids': uids, 'tmgr': 'tmgr.0000'}})
                sim.spawn(cancel_backlog, 'cancel_backlog', group='driver')

            tl = sorted((r['at'], i) for i, r in enumerate(sc['reqs']))
            t0 = sim.now
            started_master = not sc['late_master']
            for at, i in tl:
                dt = t0 + at - sim.now
                if dt > 0:
                    sim.sleep(dt)
                if not started_master:
                    sim.probe('request_before_master')
                if not started_master and at > 0.5:
                    # requests arriving before the master registered its queue
                    # are kept by the scheduler (raptor backlog)
                    st['master_started'] = True
                    sim.spawn(master_main, 'master.main', proc=mproc,
                              group='master')
                    started_master = True
                if sc['reqs'][i].get('via') == 'service':
                    st['svc'][i] = {'ret': None, 'uid': None}
                    sim.spawn(lambda i=i: svc_call(i), 'svc.%d' % i,
                              proc=mproc, group='master')
                    continue
                task = make_request(i, sc['reqs'][i], side)
                st['tasks'][task['uid']] = i
                put.put([task])
            if not started_master:
                if sc.get('cancel_backlog'):
                    sim.sleep(max(0.0, t0 + 0.6 - sim.now))
                st['master_started'] = True
                sim.spawn(master_main, 'master.main', proc=mproc,
                          group='master')

            # wait for quiescence ------------------------------------------------
            limit = sim.now + 60.0
            while sim.now < limit:
                sim.sleep(0.5)
                if all(u in st['results'] or
                       (u in st['exec_routed'] and not sc.get('exec_return'))
                       or u in st['canceled'] or u in st['master_failed']
                       for u in st['tasks']) and net.idle() and \
                        all(v['ret'] is not None for v in st['svc'].values()):
                    break
            sim.sleep(3.0)

        def instrument(cls):
            if getattr(cls, '_dst_real', None):
                real_alloc, real_dealloc, real_dispatch = cls._dst_real
            else:
                real_alloc, real_dealloc, real_dispatch = \
                    cls._alloc, cls._dealloc, cls._dispatch
                cls._dst_real = (real_alloc, real_dealloc, real_dispatch)

            def _dispatch(self, task, env):
                st['proc_uid'][sim.cur_proc().pid] = task['uid']
                return real_dispatch(self, task, env)
            cls._dispatch = _dispatch

            # os.environ / sys.stdout before and after each dispatch, in the
            # process which runs the dispatcher (matters for workers which
            # serve several requests in one process)
            import radical.pilot.raptor.worker as wmod
            import asyncio as _asyncio
            base = wmod.Worker
            if not getattr(base, '_dst_disp', None):
                base._dst_disp = {n: getattr(base, n) for n in (
                    '_dispatch_func', '_dispatch_meth', '_dispatch_eval',
                    '_dispatch_exec', '_dispatch_proc', '_dispatch_shell')}

            def observe(name, real):
                def before():
                    return (dict(wmod.os.environ), _rsys.stdout, _rsys.stderr)

                def after(task, b):
                    mode = name.replace('_dispatch_', '')
                    env_now = dict(wmod.os.environ)
                    if env_now != b[0]:
                        sim.violation(PROP, 'env_leak', 'dispatch:%s' % mode,
                                      {'uid': task['uid'], 'diff': sorted(
                                          set(env_now.items()) ^
                                          set(b[0].items()))[:6]})
                    if _rsys.stdout is not b[1] or _rsys.stderr is not b[2]:
                        sim.violation(PROP, 'stdio_leak',
                                      'dispatch:%s' % mode,
                                      {'uid': task['uid']})
                if _asyncio.iscoroutinefunction(real):
                    async def wrapped(self, task):
                        b = before()
                        try:
                            return await real(self, task)
                        finally:
                            after(task, b)
                else:
                    def wrapped(self, task):
                        b = before()
                        try:
                            return real(self, task)
                        finally:
                            after(task, b)
                wrapped.__name__ = name
                return wrapped
            for name, real in base._dst_disp.items():
                setattr(base, name, observe(name, real))

            def alloc(self, task):
                ok = real_alloc(self, task)
                if ok:
                    uid = task['uid']
                    slots = copy.deepcopy(task['slots'][0])
                    sim.log('r_alloc', uid=uid, cores=slots['cores'],
                            gpus=slots['gpus'])
                    st['dispatched'].add(uid)
                    st['cur_req'] = uid
                    for hu, hs in st['held'].items():
                        if set(hs['cores']) & set(slots['cores']) or \
                                set(hs['gpus']) & set(slots['gpus']):
                            sim.violation(PROP, 'slot_shared', 'worker',
                                          {'uid': uid, 'slots': slots,
                                           'with': hu, 'held': hs})
                    want_c = task.get('cores', 1)
                    want_g = task.get('gpus', 0)
                    if len(slots['cores']) != want_c or \
                            len(slots['gpus']) != want_g:
                        sim.violation(PROP, 'alloc_shape', 'worker',
                                      {'uid': uid, 'slots': slots,
                                       'want': [want_c, want_g]})
                    st['held'][uid] = slots
                    st['max_held'] = max(st.get('max_held', 0),
                                         len(st['held']))
                    if len(st['held']) >= 2:
                        sim.probe('concurrent_requests')
                    if slots['gpus']:
                        sim.probe('gpu_request')
                else:
                    sim.probe('alloc_wait')
                return ok

            def dealloc(self, task):
                uid = task['uid']
                sim.log('r_dealloc', uid=uid)
                st['held'].pop(uid, None)
                return real_dealloc(self, task)
            cls._alloc, cls._dealloc = alloc, dealloc

        def final(sim):
            # bring the per-process context views up to date
            sim._ctx_switch(getattr(sim, '_last_proc', None), sim.root_proc)
            sim._last_proc = sim.root_proc
            w = st['worker']
            errs = [e for e in sim.events if e['kind'] in ('thread_error',)
                    and 'driver' not in e.get('name', '')]
            site = 'worker'
            for e in errs:
                if '_result_watcher' in e.get('name', ''):
                    site = 'result_watcher_died:%s' % e['err'].split('(')[0]
            judged = dict(st['tasks'])
            m = st['master']
            for i, v in sorted(st['svc'].items()):
                if v['ret'] is None:
                    # the service call never returned to its caller
                    sim.violation(PROP, 'result_count', 'task_service',
                                  {'req': sc['reqs'][i], 'pending': sorted(
                                      getattr(m, '_task_service_data', {}))})
                else:
                    judged[v['uid']] = i
            if m is not None and not any(v['ret'] is None
                                         for v in st['svc'].values()) and \
                    getattr(m, '_task_service_data', None):
                sim.violation(PROP, 'result_count', 'task_service_leak',
                              {'left': sorted(m._task_service_data)})
            for uid in sorted(st['canceled']):
                # C08: named while waiting in the raptor backlog - taken out
                # of it, not handed to the master when that registers
                ran = uid in st['dispatched']
                if ran or st['results'].get(uid):
                    sim.violation('C08', 'named_backlog_ran', 'scheduler',
                                  {'uid': uid, 'dispatched': ran,
                                   'results': len(st['results'].get(uid,
                                                                    []))})
                judged.pop(uid, None)
            for uid, i in sorted(judged.items()):
                r = sc['reqs'][i] if i < len(sc['reqs']) else st['extra'][i]
                res = st['results'].get(uid, [])
                routed = st['exec_routed'].get(uid, [])
                mf = st['master_failed'].get(uid, 0)
                if mf:
                    # the master failed the batch this request came in (only
                    # legitimate after the injected publish failure): that is
                    # its one outcome - it was not dispatched as well
                    if not st['insert_failed']:
                        sim.violation(PROP, 'result_count', 'master_failed',
                                      {'uid': uid, 'failed_by_master': mf})
                    elif mf + len(res) + len(routed) != 1:
                        sim.violation(PROP, 'result_count',
                                      'failed_and_dispatched',
                                      {'uid': uid, 'failed_by_master': mf,
                                       'results': len(res),
                                       'to_agent': len(routed)})
                    continue
                if r['mode'] == 'executable':
                    if sc.get('exec_return'):
                        # it ran in the pilot and came back: one result
                        if len(routed) != 1 or len(res) != 1 or \
                                res[0].get('target_state') != rps.DONE:
                            sim.violation(PROP, 'result_count',
                                          'executable_return',
                                          {'uid': uid,
                                           'to_agent': len(routed),
                                           'results': len(res)})
                    elif len(routed) != 1 or res:
                        sim.violation(PROP, 'misrouted', 'master',
                                      {'uid': uid, 'to_agent': len(routed),
                                       'to_output': len(res)})
                    continue
                if routed:
                    sim.violation(PROP, 'misrouted', 'master',
                                  {'uid': uid, 'mode': r['mode']})
                if len(res) != 1:
                    sim.violation(PROP, 'result_count', site,
                                  {'uid': uid, 'n': len(res),
                                   'mode': r['mode'], 'req': r})
                    continue
                t = res[0]
                ret = t.get('exit_code')
                ts  = t.get('target_state')
                if r.get('via') == 'service':
                    sr = st['svc'][i]['ret']
                    if sr.get('exit_code') != ret or \
                            sr.get('return_value') != t.get('return_value'):
                        sim.violation(PROP, 'result_tuple', 'task_service',
                                      {'uid': uid, 'returned': [
                                          sr.get('exit_code'),
                                          sr.get('return_value')],
                                       'reported': [ret,
                                                    t.get('return_value')]})
                if (ts == rps.DONE) != (ret == 0):
                    sim.violation(PROP, 'target_state', 'master',
                                  {'uid': uid, 'exit_code': ret,
                                   'target_state': ts})
                exp = expected(i, r)
                if uid in st['fork_failed']:
                    # fork() failed for this request: a legitimately failed
                    # request (it still is judged for count, target state and
                    # the release of its cores and GPUs)
                    sim.probe('fork_failed_request')
                    exp = {'ok': False}
                if ret != 0:
                    sim.probe('failed_request')
                if 'timeout' in str(t.get('stderr')):
                    sim.probe('timeout_result')
                if r.get('payload') in ('pl_env', 'env'):
                    sim.probe('env_changing_payload')
                if r.get('payload') == 'pl_stdio':
                    sim.probe('stdio_changing_payload')
                if exp and exp.get('racy'):
                    sim.probe('completion_at_timeout')
                if not exp or exp.get('racy'):
                    continue
                det = {'uid': uid, 'req': r, 'exit_code': ret,
                       'val': t.get('return_value'),
                       'out': str(t.get('stdout'))[:80],
                       'err': str(t.get('stderr'))[:80],
                       'exc': str(t.get('exception'))[:80]}
                if exp['ok'] != (ret == 0):
                    sim.violation(PROP, 'result_tuple', 'exit_code:%s' %
                                  r['mode'], det)
                    continue
                if exp['ok']:
                    if 'val' in exp and t.get('return_value') != exp['val']:
                        sim.violation(PROP, 'result_tuple',
                                      'val:%s' % r['mode'], det)
                    if exp.get('out') and exp['out'] not in str(
                            t.get('stdout')):
                        sim.violation(PROP, exp.get('clause', 'result_tuple'),
                                      'out:%s' % r['mode'], det)
                    if exp.get('err') and exp['err'] not in str(
                            t.get('stderr')):
                        sim.violation(PROP, 'result_tuple',
                                      'err:%s' % r['mode'], det)
                    if t.get('exception') not in (None, 'None'):
                        sim.violation(PROP, 'result_tuple',
                                      'exc:%s' % r['mode'], det)
                else:
                    if exp.get('exc') and exp['exc'] not in str(
                            t.get('exception')):
                        sim.violation(PROP, 'result_tuple',
                                      'exc:%s' % r['mode'], det)
            if w is not None:
                busy = [x for x in w._resources['cores'] +
                        w._resources['gpus'] if x]
                if busy and all(len(st['results'].get(u, [])) >= 1 or
                                u in st['exec_routed'] for u in st['tasks']):
                    sim.violation(PROP, 'alloc_leak', site,
                                  {'resources': w._resources})
                elif busy:
                    sim.violation(PROP, 'alloc_leak', site,
                                  {'resources': w._resources,
                                   'missing': [u for u in st['tasks']
                                               if u not in st['results'] and
                                               u not in st['exec_routed']]})
                # the worker process itself: environment and stdio untouched
                env_now = st['worker_proc'].ctx.get('environ')
                if st['env_before'] is not None and \
                        dict(env_now) != st['env_before']:
                    sim.violation(PROP, 'env_leak', 'worker',
                                  {'diff': sorted(set(env_now.items()) ^
                                                  set(st['env_before']
                                                      .items()))[:6]})
                if st['worker_proc'].ctx.get('stdout') is not _real[0] or \
                        st['worker_proc'].ctx.get('stderr') is not _real[1]:
                    sim.violation(PROP, 'stdio_leak', 'worker', {})

        cfg['final'] = final
        return driver

    pre = None
    if sc.get('preempt'):
        pre = (('scheduler/base.py',), sc['preempt'])
    res = C.run_world(seed, build, trace=trace, tmp=True, preempt=pre,
                      stall_prob=sc.get('stall', 0.0),
                      max_steps=200000 if tier == 'quick' else 600000)
    res['nontrivial'] = len(sc['reqs']) >= 3
    st = res['sim'].data.get('c20') or {}
    res['state_fp'] = [st.get('max_held', 0),
                       sorted({r['mode'] for r in sc['reqs']}),
                       len(st.get('fork_failed') or ()),
                       sorted(res.get('probes') or {})]
    return res


def shrink(sc):
    out = list()
    reqs = sc['reqs']
    for i in range(len(reqs)):
        if len(reqs) > 1:
            c = dict(sc); c['reqs'] = reqs[:i] + reqs[i + 1:]; out.append(c)
    for k, val in (('delay_max', 0.0), ('stall', 0.0), ('fork_fail', 0.0),
                   ('late_master', False)):
        if sc.get(k) != val:
            c = dict(sc); c[k] = val; out.append(c)
    for i, r in enumerate(reqs):
        if r.get('timeout'):
            c = dict(sc); nr = dict(r); del nr['timeout']
            c['reqs'] = reqs[:i] + [nr] + reqs[i + 1:]; out.append(c)
    return out


SEEDS  = {'quick': 800, 'thorough': 25000}
BUDGET = {'quick': 280, 'thorough': 3300}
BLOCK  = 10

INFO = {
    'real': ['raptor.Master (__init__, control_cb, _request_cb, '
             '_submit_tasks routing, _result_cb, _run_task)', 'raptor.DefaultWorker '
             '(_request_cb, _alloc, _dealloc, _dispatch, _result_watcher, '
             '_result_cb)', 'raptor.Worker (__init__ registration handshake, '
             '_dispatch_func/_meth/_eval/_exec/_proc/_shell)', 'agent '
             'scheduler raptor forwarding (_schedule_incoming to_raptor, '
             'register/unregister_raptor_queue, backlog)'],
    'stub': ['ZMQ bridges/registry (simulated)', 'fork() = deep copy with '
             'shared IPC objects; per sim process os.environ, cwd, '
             'sys.stdout/stderr', 'master task service transport (ru.zmq.Server: the '
             'registered run_task handler is called from simulated service '
             'threads) and heartbeat timing', 'worker_mpi not covered', 'proc/shell '
             'payloads run real /bin/true, /bin/false, /bin/echo'],
    'rule': 'scenario = worker with 1-4 cores / 0-2 GPUs, 2-10 requests '
            '(function, method, eval, exec, proc, shell, executable) with '
            'seeded core/GPU demands, payloads that return, print, raise, '
            'change the environment or stdio, sleep on the virtual clock, '
            'time out (incl. completion == timeout), master registering '
            'before or after the first requests, requests entering through '
            'the scheduler or through the master task service, fork() '
            'failures, slow service threads; non-trivial = >=3 requests; '
            'distinct = distinct event-log digest',
}
