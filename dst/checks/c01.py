'''C01 - pilot resources are never oversubscribed (oracle: agentsim.py)'''
from . import agentsim as S

PROP  = 'C01'
KNOBS = {'max_tasks': 14, 'cancel_prob': 0.3, 'preplaced_share': 0.12,
         'tag_share': 0.15, 'fail_share': 0.1, 'partition_share': 0.05,
         'deprecated_share': 0.1}
gen, run = S.make_check(PROP, ['sched', 'sched', 'full', 'nodelist', 'jsrun'], KNOBS,
                        lambda sc, res: res.get('max_held', 0) >= 2)
shrink = S.shrink
SEEDS  = {'quick': 1500, 'thorough': 60000}
BUDGET = {'quick': 240, 'thorough': 3000}
INFO   = dict(S.INFO)
INFO['rule'] = ('scenario = seeded node layout (1-4 nodes x 1-8 cores x 0-4 '
                'GPUs, lfs/mem, blocked cores/GPUs, agent node, scattered, '
                'Fork/Slurm RM) + 2-14 tasks (ranks, cores/rank, int and '
                'fractional GPUs, lfs/mem, ranks_per_node, tags, priorities, '
                'application-supplied slots) + cancels; non-trivial = >=2 '
                'tasks held concurrently; distinct = distinct event-log digest')
