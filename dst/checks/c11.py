'''C11 - staging directives move the named data to the named place'''
from . import e2esim as S

PROP  = 'C11'
KNOBS = {'max_tasks': 5, 'min_tasks': 2, 'fail_share': 0.2,
         'spawn_fail_share': 0.0, 'timeout_share': 0.15, 'sd_share': 0.95,
         'cancel_prob': 0.25, 'long_cancel': True, 'work_exc_prob': 0.0,
         'io_fault_prob': 0.15,
         'rich_sds': True, 'soe_share': 0.3, 'out_bulk_prob': 0.08,
         'preplaced_share': 0.1}


def _nontrivial(sc, res):
    return sum(len(t['ins']) + len(t['outs']) for t in sc['tasks']) >= 2


gen, run = S.make_check(PROP, KNOBS, _nontrivial)
shrink = S.shrink
SEEDS  = {'quick': 1000, 'thorough': 15000}
BUDGET = {'quick': 280, 'thorough': 3300}
BLOCK  = 10
INFO   = dict(S.INFO)
INFO['rule'] = ('scenario = 2-5 tasks with 0-3 input and 0-2 output '
                'directives over all actions (transfer, copy, link, move, '
                'tarball), short forms (bare, >, <) and dict forms with / '
                'without target, relative / absolute / schema (client, task, '
                'pilot, session, resource) URLs, missing sources, task '
                'outcomes DONE/FAILED, stage_on_error; every source file has '
                'unique content; file trees live in a per-run temp root; '
                'non-trivial = >=2 directives; distinct = distinct event-log '
                'digest')
