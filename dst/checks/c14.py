'''
C14 - pilot states move forward and end for the right reason.

(a) World B: real PilotManager._state_sub_cb/_update_pilot, Pilot._update and
    callback dispatch under seeded notification histories (dup, reorder, gaps,
    late non-final after final, contradictory finals, unknown pilots).
(b) World G: the real Agent_0 lifetime / cancel / terminate logic against the
    virtual clock (see c14b section).
'''

import os

from ..worlds import common as C
from ..worlds import client as W
from ..       import kernel as K

rp, rps = C.rp, C.rps

PROP   = 'C14'
PST    = W.PILOT_STATES
FINAL  = W.FINAL
PVAL   = {s: i for i, s in enumerate(PST)}
for _f in FINAL:
    PVAL[_f] = len(PST)


class PilotModel(object):

    def __init__(self):
        self.state = dict()
        self.seq   = dict()      # uid -> distinct states to be announced

    def add(self, uid):
        self.state[uid] = rps.NEW
        self.seq[uid]   = list()

    def notify(self, uid, target):
        if uid not in self.state:
            return
        cur = self.state[uid]
        if cur in FINAL:
            return
        if target in (rps.FAILED, rps.CANCELED):
            self.state[uid] = target
            self.seq[uid].append(target)
            return
        if target not in PVAL or PVAL[target] <= PVAL[cur]:
            return
        for i in range(PVAL[cur] + 1, min(PVAL[target], len(PST))):
            self.seq[uid].append(PST[i])
        self.seq[uid].append(target)
        self.state[uid] = target


def gen(rng, tier):

    if rng.random() < 0.35:
        return gen_b(rng, tier)

    n = rng.randint(1, 4)
    kinds = set()
    seqs  = list()
    for p in range(n):
        stop = rng.choice(['done', 'failed', 'canceled', 'open', 'done'])
        last = len(PST) - 1 if stop == 'done' else rng.randint(1, len(PST) - 1)
        traj = PST[2:last + 1]        # NEW, LAUNCHING_PENDING come from submit
        if stop == 'done'    : traj = traj + [rps.DONE]
        if stop == 'failed'  : traj = traj + [rps.FAILED]
        if stop == 'canceled': traj = traj + [rps.CANCELED]
        if rng.random() < 0.5:
            keep = [s for s in traj if s in FINAL or rng.random() < 0.5]
            if len(keep) < len(traj):
                kinds.add('gap')
            traj = keep
        seq = [[p, s, 'n'] for s in traj]
        if seq and rng.random() < 0.4:
            i = rng.randrange(len(seq))
            seq.insert(i, list(seq[i]))
            kinds.add('dup')
        if len(seq) > 1 and rng.random() < 0.4:
            i = rng.randrange(len(seq) - 1)
            j = min(len(seq) - 1, i + rng.randint(1, 3))
            seq[i], seq[j] = seq[j], seq[i]
            kinds.add('reorder')
        if rng.random() < 0.4:
            seq.append([p, rng.choice(PST[1:]), 'late'])
            kinds.add('late')
        if stop in ('done', 'failed', 'canceled') and rng.random() < 0.3:
            seq.append([p, rng.choice(FINAL), 'contra'])
            kinds.add('contra')
        seqs.append(seq)
    merged, idx = list(), [0] * n
    live = [p for p in range(n) if seqs[p]]
    while live:
        p = rng.choice(live)
        merged.append(seqs[p][idx[p]])
        idx[p] += 1
        if idx[p] >= len(seqs[p]):
            live.remove(p)
    for _ in range(rng.randint(0, 2)):
        merged.insert(rng.randint(0, len(merged)),
                      ['unknown', rng.choice(PST + FINAL), 'unk'])
        kinds.add('unknown')
    # entries of *tasks* travel on the same channel - also of a task whose uid
    # equals the uid of one of the pilots (uids are only unique per kind)
    for _ in range(rng.randint(0, 2)):
        if rng.random() < 0.5:
            merged.insert(rng.randint(0, len(merged)),
                          [rng.randrange(n), rng.choice(FINAL + [rps.NEW]),
                           'task_entry'])
            kinds.add('task_entry')
    batches, i = list(), 0
    while i < len(merged):
        k = rng.choice([1, 1, 2, 3, 6])
        b = merged[i:i + k]
        # a contradictory final ends its batch: the property makes no promise
        # about other pilots in the batch of an invalid final->final update
        for j, e in enumerate(b):
            if e[2] == 'contra':
                b = b[:j + 1]
                break
        batches.append(b)
        i += len(b)
    # `pilot_activate` control messages are handled by a second thread of the
    # manager: let some of them race with the state notifications
    acts = dict()
    if rng.random() < 0.5 and batches:
        for _ in range(rng.randint(1, 2)):
            acts.setdefault(str(rng.randrange(len(batches))), []).append(
                rng.randrange(n))
        kinds.add('activate_race')
    if rng.random() < 0.3:
        # ... and one exactly when the final state of that pilot arrives (the
        # activation then fills in states while the other thread finishes)
        cand = [(bi, e[0]) for bi, b in enumerate(batches) for e in b
                if e[2] == 'n' and e[1] in FINAL and e[0] != 'unknown']
        if cand:
            bi, p = rng.choice(cand)
            acts.setdefault(str(bi), []).append(p)
            kinds.add('activate_race')
    late = None
    if n > 1 and rng.random() < 0.3:
        late = rng.randrange(n)
        kinds.add('late_submit')
    return {'mode': 'a', 'n': n, 'batches': batches, 'kinds': sorted(kinds),
            'acts': acts, 'late_submit': late,
            'late_at': rng.choice([0.0, 0.0, 0.05, 0.2]),
            'raising_cb': False,
            'delay_max': rng.choice([0.0, 0.0, 0.05, 0.3]),
            # fault kind `stall`: a manager thread is descheduled for up to
            # 60 ms at a yield point (the other one then runs a whole update)
            'stall': rng.choice([0.0, 0.0, 0.05, 0.2])}


def run(seed, scenario, trace=None, tier='quick'):
    if scenario.get('mode') == 'b':
        return run_b(seed, scenario, trace, tier)
    return run_a(seed, scenario, trace, tier)


def run_a(seed, scenario, trace=None, tier='quick'):

    sc = scenario

    def build(sim, cfg):

        model = PilotModel()
        obs_m = dict()      # pmgr level callbacks: uid -> [state]
        obs_p = dict()      # pilot level callbacks
        st    = {'pilots': [], 'samples': {}, 'raced': set()}

        def on_event(ev):
            if ev['kind'] == 'deliver' and ev.get('to') == 'pmgr' \
                    and ev.get('chan') == C.rpc.STATE_PUBSUB:
                m = ev['m']
                if m.get('cmd') == 'update':
                    tt = m.get('ttypes')
                    for k, (uid, state) in enumerate(m.get('things', [])):
                        if tt and tt[k] != 'pilot':
                            continue      # a task's entry: not for pilots
                        if isinstance(uid, str) and uid.startswith('pilot.'):
                            model.notify(uid, state)
        sim.listeners.append(on_event)

        def check_cb(uid, lst, state, who):
            prev = lst[-1] if lst else None
            lst.append(state)
            if prev is not None:
                if prev in FINAL and state != prev:
                    sim.violation(PROP, 'final_left', who,
                                  {'uid': uid, 'seen': list(lst)})
                elif PVAL[state] < PVAL[prev]:
                    sim.violation(PROP, 'cb_backwards', who,
                                  {'uid': uid, 'seen': list(lst)})

        def pmgr_cb(pilot, state):
            check_cb(pilot.uid, obs_m.setdefault(pilot.uid, []), state,
                     'pmgr_cb')

        def pilot_cb(pilots):
            for pilot in pilots:
                check_cb(pilot.uid, obs_p.setdefault(pilot.uid, []),
                         pilot.state, 'pilot_cb')

        def driver():
            side = W.make_client(sim)
            net  = C.N.net()
            net.delay_max = sc['delay_max']
            pmgr = W.make_pmgr(side)
            sim.freeze('Idler')
            pmgr.register_callback(pmgr_cb)
            pub  = W.state_publisher(side)
            real_check = pmgr.check_uid

            def check_uid(uid):
                ok = real_check(uid)
                if ok:
                    model.add(uid)
                    # submit_pilots applies this one synchronously itself
                    model.notify(uid, rps.PMGR_LAUNCHING_PENDING)
                return ok
            pmgr.check_uid = check_uid
            pds = [W.pilot_descr('/nonexistent/dst', uid='pilot.%04d' % i)
                   for i in range(sc['n'])]
            late = sc.get('late_submit')
            if late is not None and late < len(pds) and len(pds) > 1:
                # one pilot is submitted by an application thread *while*
                # notifications for its (known) uid already flow: the update
                # done by submit_pilots races with the listener threads
                lpd = pds.pop(late)
                pilots = pmgr.submit_pilots(pds)
                st['raced'].add(lpd.uid)

                def app():
                    sim.sleep(sc.get('late_at', 0.0))
                    ps = pmgr.submit_pilots([lpd])
                    ps[0].register_callback(pilot_cb)
                    st['late_pilot'] = ps[0]
                if sc.get('stall'):
                    # the application thread is descheduled now and then
                    # (inside submit_pilots) while the listeners run on
                    sim.slow['app.submit'] = (min(0.5, 2 * sc['stall']), 0.3)
                with C.group('app'):
                    C.P.Thread(target=app, name='app.submit').start()
                pilots.insert(late, None)
            else:
                pilots = pmgr.submit_pilots(pds)
            st['pilots'] = [p for p in pilots if p is not None]
            for p in pilots:
                if p is not None:
                    p.register_callback(pilot_cb)

            class _U(object):
                def __init__(self, uid):
                    self.uid = uid
            pilots = [p if p is not None else _U('pilot.%04d' % late)
                      for p in pilots]
            cpub = W.control_publisher(side)
            for bi, batch in enumerate(sc['batches']):
                for p in (sc.get('acts') or {}).get(str(bi), []):
                    st['raced'].add(pilots[p].uid)
                    sim.fault('activate_race')
                    cpub.put(C.rpc.CONTROL_PUBSUB, {
                        'cmd': 'pilot_activate', 'arg': {'pilot': {
                            'uid': pilots[p].uid, 'type': 'pilot',
                            'state': rps.PMGR_ACTIVE, 'resources': {}}}})
                arg = list()
                for p, state, kind in batch:
                    uid = 'pilot.unknown' if p == 'unknown' else pilots[p].uid
                    if kind == 'task_entry':
                        arg.append({'uid': uid, 'type': 'task',
                                    'state': state})
                        continue
                    arg.append({'uid': uid, 'type': 'pilot', 'state': state})
                if arg:
                    pub.put(C.rpc.STATE_PUBSUB, {'cmd': 'update', 'arg': arg})
                for p in st['pilots']:
                    st['samples'].setdefault(p.uid, []).append(p.state)
                if sim.ch.coin(0.3):
                    sim.sleep(sim.ch.uniform(0.0, 0.2))
            W.wait_until(sim, lambda: net.idle(queues=False), 30.0)
            sim.sleep(1.0)
            if st.get('late_pilot'):
                st['pilots'].append(st['late_pilot'])
            for p in st['pilots']:
                st['samples'].setdefault(p.uid, []).append(p.state)

        def distinct(lst):
            out = list()
            for s in lst:
                if not out or out[-1] != s:
                    out.append(s)
            return out

        def final(sim):
            errs = [e for e in sim.events if e['kind'] == 'cb_error'
                    and e.get('to') == 'pmgr']
            site = 'no_exception'
            if errs:
                site = '%s:%s' % (errs[0]['cb'], errs[0]['exc'].split('(')[0])
            for p in st['pilots']:
                uid  = p.uid
                want = model.seq.get(uid, [])
                got  = distinct(obs_m.get(uid, []))
                if uid in st['raced']:
                    # two manager threads updated this pilot concurrently:
                    # the order is not determined, only the invariants
                    # (monotone, final is sticky; checked at each callback
                    # and on the samples below) are judged
                    want = got
                    model.state[uid] = p.state
                # LAUNCHING_PENDING is applied by submit_pilots itself
                if got != want:
                    sim.violation(PROP, 'gap_not_filled', site,
                                  {'uid': uid, 'seen': got, 'expected': want})
                if p.state != model.state.get(uid):
                    sim.violation(PROP, 'state_mismatch', site,
                                  {'uid': uid, 'state': p.state,
                                   'model': model.state.get(uid)})
                seen = st['samples'].get(uid, [])
                for a, b in zip(seen, seen[1:]):
                    if (a in FINAL and b != a) or PVAL[b] < PVAL[a]:
                        sim.violation(PROP, 'final_left' if a in FINAL
                                      else 'state_backwards', site,
                                      {'uid': uid, 'samples': seen})
                        break
            # unknown pilots must be ignored silently
            for e in errs:
                if 'unknown' in e['exc']:
                    sim.violation(PROP, 'unknown_not_ignored', site,
                                  {'exc': e['exc']})

        cfg['final'] = final
        return driver

    res = C.run_world(seed, build, trace=trace,
                      max_steps=40000 if tier == 'quick' else 200000,
                      stall_prob=sc.get('stall', 0.0))
    res['nontrivial'] = bool(sc['kinds'])
    return res


# ------------------------------------------------------------------------------
# (b) termination cause -> final state  (filled in by c14b below)
#
def gen_b(rng, tier):
    from . import c14b
    return c14b.gen(rng, tier)


def run_b(seed, scenario, trace=None, tier='quick'):
    from . import c14b
    return c14b.run(seed, scenario, trace, tier)


def shrink(sc):
    if sc.get('mode') == 'b':
        from . import c14b
        return c14b.shrink(sc)
    out = list()
    b = sc['batches']
    for i in range(len(b)):
        c = dict(sc); c['batches'] = b[:i] + b[i + 1:]; out.append(c)
    for i in range(len(b)):
        for j in range(len(b[i])):
            if len(b[i]) > 1:
                c = dict(sc)
                c['batches'] = b[:i] + [b[i][:j] + b[i][j + 1:]] + b[i + 1:]
                out.append(c)
    if sc['delay_max']:
        c = dict(sc); c['delay_max'] = 0.0; out.append(c)
    return out


SEEDS  = {'quick': 2000, 'thorough': 60000}
BUDGET = {'quick': 240, 'thorough': 3000}

INFO = {
    'real': ['PilotManager._state_sub_cb/_update_pilot/submit_pilots/'
             '_call_pilot_callbacks', 'Pilot._update', 'states.'
             '_pilot_state_progress', 'Agent_0._check_lifetime/stop/'
             '_ctrl_cancel_pilots/control_cb/finalize (mode b)'],
    'stub': ['transport/registry (simulated)', 'pmgr launcher not started',
             'agents (driver publishes pilot notifications)', 'mode b: '
             'Agent_0 built without __init__ (no components, no RM), '
             'bootstrap_0.sh not executed'],
    'rule': 'mode a: seeded pilot notification histories over 1-4 pilots '
            '(dup/reorder/gap/late/contradictory/unknown); mode b: seeded '
            'termination causes of the agent (runtime reached, cancel naming '
            'it or another pilot, terminate command, clock jumps); '
            'non-trivial = >=1 mutation kind (a) or >=1 cause (b); distinct = '
            'distinct event-log digest',
}
