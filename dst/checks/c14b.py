'''
C14 (b) - the final state tells why the pilot ended.

World G: a real Agent_0 instance built without its constructor (no sub-agents,
no RM, no services), started with the real start()/work loop; its real
_check_lifetime runs as a timed callback against the virtual clock; the driver
injects termination causes; the real finalize() writes killme.signal and
publishes the final state.
'''

import os

import radical.utils as ru

from ..worlds import common as C
from ..       import kernel as K
from ..       import net    as N

rp, rps, rpc, rpu = C.rp, C.rps, C.rpc, C.rpu

PROP = 'C14'


def gen(rng, tier):
    runtime = rng.choice([1, 1, 2])
    dl      = runtime * 60.0
    ops     = list()
    kind    = rng.choice(['timeout', 'timeout', 'cancel', 'cancel', 'race',
                          'other', 'close', 'terminate', 'jump',
                          'cancel_then_timeout'])
    if kind == 'cancel':
        ops.append([round(rng.uniform(0.5, dl - 15), 2), 'cancel_self'])
    elif kind == 'race':
        ops.append([round(dl + rng.uniform(-11, 11), 2), 'cancel_self'])
    elif kind == 'other':
        ops.append([round(rng.uniform(0.5, dl - 15), 2), 'cancel_other'])
    elif kind == 'close':
        ops.append([round(rng.uniform(0.5, dl - 15), 2), 'close'])
    elif kind == 'terminate':
        ops.append([round(rng.uniform(0.5, dl - 15), 2), 'terminate'])
    elif kind == 'jump':
        ops.append([round(rng.uniform(0.5, dl - 15), 2), 'jump',
                    rng.choice([30, 120, 3600])])
    elif kind == 'cancel_then_timeout':
        ops.append([round(rng.uniform(0.5, dl - 15), 2), 'cancel_other'])
        ops.append([round(rng.uniform(0.5, dl - 15), 2), 'jump', 30])
    if rng.random() < 0.3:
        ops.append([round(rng.uniform(0.5, dl - 15), 2), 'cancel_other'])
    if rng.random() < 0.25:
        # a cancel request which names no pilot at all (what a pilot manager
        # without pilots publishes on close)
        ops.append([round(rng.uniform(0.5, dl - 15), 2), 'cancel_none'])
    ops.sort()
    return {'mode': 'b', 'runtime': runtime, 'ops': ops, 'kinds': [kind],
            'delay_max': rng.choice([0.0, 0.05]),
            'close_time': rng.choice([0.0, 0.0, 0.3, 2.0]),
            # fault kind `slow`: the thread which handles control messages is
            # descheduled inside its handlers (up to a work loop period)
            'slow_ctl': rng.choice([0.0, 0.0, 0.3]),
            # fault: the final state update cannot be published any more (the
            # state channel is already gone when the agent finalizes)
            'pub_fail': rng.random() < 0.15}


class _RM(object):
    def __deepcopy__(self, memo):
        return self

    def stop(self):
        pass


def run(seed, scenario, trace=None, tier='quick'):

    sc = scenario

    def build(sim, cfg):

        st = {'agent': None, 't_start': None, 'cancel_at': None,
              'close_at': None, 'term_at': None, 'deadline': None,
              'finals': [], 'file': None}

        def on_event(ev):
            if ev['kind'] == 'pub' and ev.get('chan') == rpc.STATE_PUBSUB:
                for uid, state in ev['m'].get('things', []):
                    if uid == 'pilot.0000' and state in rps.FINAL:
                        st['finals'].append(state)
        sim.listeners.append(on_event)

        def driver():
            root = sim.data['tmp']
            sim.data['session_close_time'] = sc.get('close_time', 0.0)
            if sc.get('slow_ctl'):
                sim.slow['agent_0.sub.'] = (sc['slow_ctl'], 1.2)
            os.chdir(root)
            pid  = 'pilot.0000'
            side = C.Side(sim, pid)
            sim.data['sides_by_reg'][side.reg_url] = side
            side.add_pubsub(rpc.CONTROL_PUBSUB)
            side.add_pubsub(rpc.STATE_PUBSUB)
            N.net().delay_max = sc['delay_max']
            scfg = {'sid': 'rp.session.sim', 'path': root, 'base': root,
                    'reg_addr': side.reg_url, 'pid': pid}
            side.reg['cfg'] = scfg
            sess = C.SimSession(side, 'rp.session.sim', rp.Session._AGENT_0,
                                scfg, rcfg={}, module=pid)
            side.session = sess
            acfg = ru.Config(from_dict={
                'uid': 'agent_0', 'pid': pid, 'sid': 'rp.session.sim',
                'owner': pid, 'pmgr': 'pmgr.0000', 'runtime': sc['runtime'],
                'pilot_sandbox': root, 'services': [], 'reg_addr':
                side.reg_url})
            from radical.pilot.agent.agent_0 import Agent_0
            import radical.pilot.agent.agent_0 as a0mod
            with C.group('agent_0'):
                a = object.__new__(Agent_0)
                rpu.AgentComponent.__init__(a, acfg, sess)
                a._pid         = pid
                a._sid         = 'rp.session.sim'
                a._pmgr        = 'pmgr.0000'
                a._pwd         = root
                a._rm          = _RM()
                a._starttime   = a0mod.time.time()
                a._final_cause = None
                a.initialize   = lambda: None
                a.stage_output = lambda: None
                a.register_timed_cb(a._check_lifetime, timer=10)
                if sc.get('pub_fail'):
                    real_publish = a.publish

                    def publish(pubsub, msg, *args, **kw):
                        if pubsub == rpc.STATE_PUBSUB and a._term.is_set():
                            sim.fault('publish_fails')
                            raise RuntimeError("no msg route for '%s'"
                                               % pubsub)
                        return real_publish(pubsub, msg, *args, **kw)
                    a.publish = publish
                a.start()
            st['agent']    = a
            st['t_start']  = a._starttime
            st['deadline'] = a._starttime + int(sc['runtime']) * 60
            ccfg = side.reg['bridges.%s' % rpc.CONTROL_PUBSUB]
            pub  = N.Publisher(rpc.CONTROL_PUBSUB, url=ccfg['addr_pub'])

            t0 = sim.now
            for op in sc['ops']:
                if a._thread._sim_thread.state == K.DONE:
                    break
                dt = t0 + op[0] - sim.now
                if dt > 0:
                    # sleep in slices so that an early end is noticed
                    end = sim.now + dt
                    while sim.now < end and \
                            a._thread._sim_thread.state != K.DONE:
                        sim.sleep(min(1.0, end - sim.now))
                if a._thread._sim_thread.state == K.DONE:
                    break
                if op[1] == 'cancel_self':
                    st['cancel_at'] = sim.now
                    sim.fault('cancel_pilot')
                    pub.put(rpc.CONTROL_PUBSUB, {
                        'cmd': 'cancel_pilots',
                        'arg': {'pmgr': 'pmgr.0000', 'uids': [pid]}})
                elif op[1] == 'cancel_other':
                    sim.fault('cancel_other')
                    pub.put(rpc.CONTROL_PUBSUB, {
                        'cmd': 'cancel_pilots',
                        'arg': {'pmgr': 'pmgr.0000', 'uids': ['pilot.0007']}})
                elif op[1] == 'cancel_none':
                    sim.fault('cancel_none')
                    pub.put(rpc.CONTROL_PUBSUB, {
                        'cmd': 'cancel_pilots',
                        'arg': {'pmgr': 'pmgr.0001', 'uids': []}})
                elif op[1] == 'terminate':
                    st['term_at'] = sim.now
                    sim.fault('terminate')
                    pub.put(rpc.CONTROL_PUBSUB, {'cmd': 'terminate',
                                                 'arg': None})
                elif op[1] == 'close':
                    st['close_at'] = sim.now
                    sim.fault('agent_crash')
                    a._term.set()
                elif op[1] == 'jump':
                    sim.fault('clock_jump')
                    sim.now += op[2]
                    sim.log('clock_jump', dt=op[2])
            # wait for the agent to end (bounded: deadline + 40s)
            # (a clock jump may have carried the clock far beyond the deadline)
            limit = max(st['deadline'], sim.now) + 40
            while a._thread._sim_thread.state != K.DONE and sim.now < limit:
                sim.sleep(1.0)
            sim.sleep(1.0)
            try:
                with open('%s/killme.signal' % root) as f:
                    st['file'] = f.read().strip()
            except OSError:
                st['file'] = None

        def final(sim):
            a      = st['agent']
            ended  = a._thread._sim_thread.state == K.DONE
            dl     = st['deadline']
            # when did the lifetime end become effective (clock jumps!)
            allowed = set()
            eps = 12.0
            c, x, t = st['cancel_at'], st['close_at'], st['term_at']
            first_other = min([v for v in (c, x, t) if v is not None] or
                              [None]) if any(v is not None
                                             for v in (c, x, t)) else None
            # time at which the virtual clock first was >= deadline
            t_dl = None
            for ev in sim.events:
                if ev['t'] + sim.t0 >= dl:
                    t_dl = ev['t'] + sim.t0
                    break
            if t_dl is None:
                t_dl = dl
            causes = list()
            if c is not None: causes.append((c, rps.CANCELED))
            if x is not None: causes.append((x, rps.FAILED))
            if t is not None: causes.append((t, 'TERMINATE'))
            causes.append((t_dl, rps.DONE))
            causes.sort(key=lambda z: z[0])
            t_first = causes[0][0]
            for tc, state in causes:
                if tc <= t_first + eps:
                    if state == 'TERMINATE':
                        # a `terminate` command is a request to end (the
                        # client closes its session): no failure
                        allowed.add(rps.CANCELED)
                    else:
                        allowed.add(state)
            if not ended:
                sim.violation(PROP, 'agent_never_ends', 'agent_0',
                              {'allowed': sorted(allowed)})
                return
            got = st['file']
            pub = st['finals'][-1] if st['finals'] else None
            det = {'killme': got, 'published': st['finals'],
                   'allowed': sorted(allowed), 'ops': sc['ops']}
            if got not in allowed:
                if allowed == {rps.DONE}:
                    clause = 'timeout_not_done'
                elif allowed == {rps.CANCELED}:
                    clause = 'cancel_not_canceled'
                elif allowed == {rps.FAILED}:
                    clause = 'crash_not_failed'
                else:
                    clause = 'wrong_final_state'
                sim.violation(PROP, clause, 'Agent_0.finalize', det)
            elif (pub != got and not sc.get('pub_fail')) or \
                    len(set(st['finals'])) > 1:
                sim.violation(PROP, 'published_differs', 'Agent_0.finalize',
                              det)

        cfg['final'] = final
        return driver

    res = C.run_world(seed, build, trace=trace, tmp=True,
                      max_steps=150000 if tier == 'quick' else 400000)
    res['nontrivial'] = True
    return res


def shrink(sc):
    out = list()
    ops = sc['ops']
    for i in range(len(ops)):
        c = dict(sc); c['ops'] = ops[:i] + ops[i + 1:]; out.append(c)
    if sc['runtime'] > 1:
        c = dict(sc); c['runtime'] = 1; out.append(c)
    if sc['delay_max']:
        c = dict(sc); c['delay_max'] = 0.0; out.append(c)
    if sc.get('slow_ctl'):
        c = dict(sc); c['slow_ctl'] = 0.0; out.append(c)
    if sc.get('pub_fail'):
        c = dict(sc); c['pub_fail'] = False; out.append(c)
    return out
