'''
C13 - a dying pilot fails its own tasks and only those.

World B: real TaskManager, Task, PilotManager, Pilot.  Tasks are spread over
2-3 pilots and over all states (incl. unbound and final) by a notification
driver; pilots reach a final state at seeded crash points, in any order.
'''

from ..worlds import common as C
from ..worlds import client as W
from .c06     import Model, VAL, STATES, FINAL

rp, rps = C.rp, C.rps

PROP = 'C13'


class PModel(Model):
    '''task model + binding + pilot death'''

    def __init__(self):
        Model.__init__(self)
        self.pilot = dict()      # uid -> pid
        self.died  = dict()      # uid -> pid which failed it
        self.dead  = set()

    def bind(self, uid, pid):
        if uid in self.state and pid:
            self.pilot[uid] = pid

    def pilot_died(self, pid):
        self.dead.add(pid)
        for uid, st in self.state.items():
            if self.pilot.get(uid) == pid and st not in FINAL:
                self.state[uid] = rps.FAILED
                self.died[uid]  = pid


def gen(rng, tier):

    n_pilots = rng.randint(2, 3)
    n_tasks  = rng.randint(2, 8)
    tasks = list()
    for t in range(n_tasks):
        kind = rng.choice(['early', 'late', 'late', 'unbound'])
        tasks.append({'pilot': None if kind == 'unbound'
                               else rng.randrange(n_pilots),
                      'early': kind == 'early',
                      'pos'  : 1,              # index in STATES reached so far
                      'final': None})
    deaths = list(range(n_pilots))
    rng.shuffle(deaths)
    deaths = deaths[:rng.randint(1, n_pilots)]
    ops = list()
    failed_before = list()
    rounds = rng.randint(1, 4)
    for r in range(rounds + len(deaths)):
        # a batch moving some tasks forward
        batch = list()
        for t, tk in enumerate(tasks):
            if tk['final'] or rng.random() < 0.4:
                continue
            top = len(STATES) - 1
            if tk['pilot'] is None:
                top = 2                         # unbound: TMGR_SCHEDULING
            step = rng.choice([1, 1, 2, 3, 6])
            new  = min(top, tk['pos'] + step)
            fin  = None
            if tk['pilot'] is not None and rng.random() < 0.25:
                fin = rng.choice(FINAL)
            if new == tk['pos'] and not fin:
                continue
            for i in range(tk['pos'] + 1, new + 1):
                batch.append([t, STATES[i]])
            tk['pos'] = new
            if fin:
                if fin == rps.DONE:
                    for i in range(tk['pos'] + 1, len(STATES)):
                        batch.append([t, STATES[i]])
                batch.append([t, fin])
                tk['final'] = fin
        if batch:
            ops.append(['notify', batch])
        racy = rng.random() < 0.3
        if not racy:
            ops.append(['sync'])
        if r >= rounds - 1 and deaths and (rng.random() < 0.7
                                           or r >= rounds):
            p = deaths.pop(0)
            if rng.random() < 0.3:
                # the application takes the pilot out of the task manager
                # before it ends: its tasks stay bound to it
                ops.append(['remove', p])
            fin = rng.choice(FINAL)
            ops.append(['die', p, fin, racy])
            # the message which reports this end may first list a pilot which
            # FAILED earlier, now as CANCELED (what the launcher publishes
            # when the application cancels all its pilots after a failure)
            if failed_before and rng.random() < 0.4:
                ops[-1].append(rng.choice(failed_before))
            if fin == rps.FAILED:
                failed_before.append(p)
            if not racy:
                ops.append(['sync'])
    ops.append(['sync'])
    if rng.random() < 0.2:
        # the callback's contract is a *list* of pilots: the last two deaths
        # are reported to the task manager in one invocation
        dies = [i for i, op in enumerate(ops) if op[0] == 'die']
        if len(dies) >= 2:
            a, b = dies[-2], dies[-1]
            bulk = ['die_bulk', [ops[a][1], ops[b][1]],
                    [ops[a][2], ops[b][2]]]
            ops = [op for i, op in enumerate(ops) if i not in (a, b)
                   and not (op[0] == 'remove' and op[1] in bulk[1])]
            ops += [bulk, ['sync']]
    # the application has its own (slow) pilot callbacks, registered before
    # the pilots are added to the task manager, and (un)registers further
    # ones from a thread of its own while pilots end
    cb_race = None
    if rng.random() < 0.25:
        cb_race = {'dt': rng.choice([0.05, 0.2, 0.5]),
                   'at': rng.choice([0.0, 0.02, 0.1, 0.3]),
                   'n': rng.randint(1, 3)}
    return {'n_pilots': n_pilots,
            'tasks'   : [{'pilot': t['pilot'], 'early': t['early']}
                         for t in tasks],
            'ops'     : ops,
            'delay_max': rng.choice([0.0, 0.0, 0.05]), 'cb_race': cb_race}


def run(seed, scenario, trace=None, tier='quick'):

    sc = scenario

    def build(sim, cfg):

        model = PModel()
        st    = {'tasks': [], 'pilots': [], 'ambiguous': set(),
                 'window': False, 'since_sync': set(), 'binds': {},
                 'task_cbs': {}}

        def on_event(ev):
            if ev['kind'] != 'deliver' or ev.get('chan') != C.rpc.STATE_PUBSUB:
                return
            m = ev['m']
            if m.get('cmd') != 'update':
                return
            if ev.get('to') == 'tmgr':
                for uid, state in m.get('things', []):
                    if isinstance(uid, str) and uid.startswith('task.'):
                        if st['window']:
                            st['ambiguous'].add(uid)
                        st['since_sync'].add(uid)
                        # the truth comes from the agents (driver); the
                        # manager's own announcements only count for the
                        # non-final states it is responsible for
                        if ev.get('src') == 'driver':
                            model.bind(uid, st['binds'].get((uid, state)))
                        if ev.get('src') == 'driver' or state not in FINAL:
                            model.notify(uid, state)
            elif ev.get('to') == 'pmgr':
                for uid, state in m.get('things', []):
                    if isinstance(uid, str) and uid.startswith('pilot.') \
                            and state in FINAL and uid not in model.dead:
                        model.pilot_died(uid)
        sim.listeners.append(on_event)

        def driver():
            side = W.make_client(sim)
            net  = C.N.net()
            net.delay_max = sc['delay_max']
            tmgr = W.make_tmgr(side, components=False)
            pmgr = W.make_pmgr(side)
            sim.freeze('Idler')
            pilots = pmgr.submit_pilots([W.pilot_descr('/nonexistent/dst')
                                         for _ in range(sc['n_pilots'])])
            st['pilots'] = pilots
            race = sc.get('cb_race')
            if race:
                def slow_cb(*a):
                    if a and getattr(a[0], 'state', None) in FINAL or \
                            (a and isinstance(a[0], list) and
                             any(p.state in FINAL for p in a[0])):
                        sim.fault('slow_callback')
                        sim.sleep(race['dt'])
                for p in pilots:
                    p.register_callback(slow_cb)
            tmgr.add_pilots(pilots)
            if sc.get('c06_focus'):
                # the application's view of the tasks (judged as C06)
                sim.data['log_yield'] = sc.get('log_yield', False)
                if sc.get('stall'):
                    # the manager's notification thread is the slow one
                    sim.slow['tmgr.sub.'] = (min(0.5, 2 * sc['stall']), 0.2)

                def task_cb(task, state):
                    st['task_cbs'].setdefault(task.uid, []).append(state)
                tmgr.register_callback(task_cb)
            pids = [p.uid for p in pilots]
            pub  = W.state_publisher(side)

            real_check = tmgr._check_uid

            def check_uid(uid):
                ok = real_check(uid)
                if ok:
                    model.add(uid)
                return ok
            tmgr._check_uid = check_uid

            tds = list()
            for tk in sc['tasks']:
                d = {'executable': '/bin/true'}
                if tk['early'] and tk['pilot'] is not None:
                    d['pilot'] = pids[tk['pilot']]
                tds.append(rp.TaskDescription(d))
            tasks = tmgr.submit_tasks(tds)
            st['tasks'] = tasks
            for tk, task in zip(sc['tasks'], tasks):
                if tk['early'] and tk['pilot'] is not None:
                    model.bind(task.uid, pids[tk['pilot']])

            def sync():
                W.wait_until(sim, lambda: net.idle(queues=False), 30.0)
                sim.sleep(0.5)
                if sc.get('cb_race'):
                    # a delivered pilot update is still being dispatched
                    # while a slow application callback runs
                    sim.sleep(3 * sc['cb_race']['dt'])
                    W.wait_until(sim, lambda: net.idle(queues=False), 30.0)
                st['window'] = False
                st['since_sync'] = set()

            sync()
            for op in sc['ops']:
                if op[0] == 'notify':
                    arg = list()
                    for t, state in op[1]:
                        if t >= len(tasks):
                            continue
                        d = {'uid': tasks[t].uid, 'type': 'task',
                             'state': state}
                        pidx = sc['tasks'][t]['pilot']
                        if pidx is not None and \
                                VAL[state] >= VAL[rps.TMGR_STAGING_INPUT_PENDING]:
                            d['pilot'] = pids[pidx]
                            st['binds'][(tasks[t].uid, state)] = pids[pidx]
                        if state not in FINAL and VAL[state] >= VAL[
                                rps.AGENT_STAGING_OUTPUT_PENDING] and \
                                (t + len(op[1])) % 3 == 0:
                            # a task which failed on the pilot and still is
                            # on its way (staging on error): it carries the
                            # error of its process
                            d['exit_code'] = 1
                            d['exception'] = 'RuntimeError("task failed")'
                            d['exception_detail'] = 'exit code: 1'
                        arg.append(d)
                        st['since_sync'].add(tasks[t].uid)
                    if arg:
                        pub.put(C.rpc.STATE_PUBSUB,
                                {'cmd': 'update', 'arg': arg})
                elif op[0] == 'sync':
                    sync()
                elif op[0] == 'remove':
                    if op[1] < len(pids):
                        sim.probe('remove_pilot')
                        tmgr.remove_pilots(pids[op[1]])
                elif op[0] == 'die_bulk':
                    sync()
                    sel = [pilots[p] for p in op[1] if p < len(pids)]
                    saved = list()
                    for p in sel:
                        with p._cb_lock:
                            cbs = p._callbacks[C.rpc.PILOT_STATE]
                            keys = [k for k, v in cbs.items()
                                    if v['cb'] == tmgr._pilot_state_cb]
                            saved.append([(k, cbs.pop(k)) for k in keys])
                    sim.fault('pilot_death')
                    pub.put(C.rpc.STATE_PUBSUB, {'cmd': 'update', 'arg': [
                        {'uid': p.uid, 'type': 'pilot', 'state': state}
                        for p, state in zip(sel, op[2])]})
                    sync()
                    sim.probe('bulk_pilot_cb')
                    tmgr._pilot_state_cb(sel)
                    for p, ents in zip(sel, saved):
                        with p._cb_lock:
                            for k, ent in ents:
                                p._callbacks[C.rpc.PILOT_STATE][k] = ent
                elif op[0] == 'die':
                    _, p, state, racy = op[:4]
                    again = op[4] if len(op) > 4 else None
                    if racy:
                        # notifications of this window may overlap the death
                        st['window'] = True
                        st['ambiguous'] |= st['since_sync']
                    if p < len(pids):
                        sim.fault('pilot_death')
                        arg = [{'uid': pids[p], 'type': 'pilot',
                                'state': state}]
                        if again is not None and again < len(pids):
                            sim.probe('failed_pilot_reported_canceled')
                            arg.insert(0, {'uid': pids[again], 'type': 'pilot',
                                           'state': rps.CANCELED})
                        pub.put(C.rpc.STATE_PUBSUB, {'cmd': 'update',
                                                     'arg': arg})
                        if sc.get('cb_race'):
                            def app(pilot=pilots[p], race=sc['cb_race']):
                                sim.sleep(race['at'])
                                cbs = list()
                                for k in range(race['n']):
                                    cb = (lambda *a: None)
                                    cbs.append(cb)
                                    pilot.register_callback(cb)
                                    sim.sleep(0.01)
                                for cb in cbs[:-1]:
                                    pilot.unregister_callback(cb)
                            with C.group('app'):
                                C.P.Thread(target=app,
                                           name='app.cbs.%d' % p).start()
            sync()

        def final(sim):
            if sc.get('c06_focus'):
                # C06 in a world with pilots: whatever the interleaving of
                # notifications and pilot deaths, the callbacks of a task
                # move forward, announce one final state at most, nothing
                # after it, and end where Task.state ends
                for task in st['tasks']:
                    seq = st['task_cbs'].get(task.uid, [])
                    bad = None
                    for a, b in zip(seq, seq[1:]):
                        if a in FINAL:
                            bad = 'cb_after_final'
                        elif VAL[b] < VAL[a] or a == b:
                            bad = 'cb_order'
                        if bad:
                            break
                    # (a task failed by its pilot's death is not announced to
                    # manager level callbacks at all - the property does not
                    # ask for that; but an announced final state is the state)
                    if not bad and seq and seq[-1] in FINAL and \
                            seq[-1] != task.state:
                        bad = 'cb_state_mismatch'
                    if bad:
                        sim.violation('C06', bad, 'pilot_death_race',
                                      {'uid': task.uid, 'callbacks': seq,
                                       'state': task.state})
            racy_uids = set(st['ambiguous'])
            # in racy windows every task that had a delivery is excluded;
            # additionally any task delivered-to before a racy death without
            # an intervening sync
            for task in st['tasks']:
                uid = task.uid
                if uid in racy_uids:
                    sim.probe('ambiguous_task')
                    continue
                want = model.state.get(uid)
                got  = task.state
                pid  = model.pilot.get(uid)
                if uid in model.died:
                    if got != rps.FAILED:
                        sim.violation(PROP, 'own_not_failed', 'tmgr',
                                      {'uid': uid, 'state': got, 'pilot': pid})
                    else:
                        detail = '%s %s' % (task.exception,
                                            task.exception_detail)
                        if model.died[uid] not in detail:
                            sim.violation(PROP, 'no_explanation', 'tmgr',
                                          {'uid': uid, 'detail': detail})
                    continue
                if got == want:
                    continue
                if want in FINAL:
                    clause = 'final_changed'
                elif pid is None:
                    clause = 'unbound_touched'
                elif pid not in model.dead:
                    clause = 'other_pilot_touched'
                else:
                    clause = 'state_mismatch'
                sim.violation(PROP, clause, '_pilot_state_cb',
                              {'uid': uid, 'state': got, 'model': want,
                               'pilot': pid, 'dead': sorted(model.dead),
                               'exc': task.exception_detail})

        cfg['final'] = final
        return driver

    res = C.run_world(seed, build, trace=trace,
                      max_steps=60000 if tier == 'quick' else 300000,
                      stall_prob=sc.get('stall', 0.0))
    res['nontrivial'] = any(op[0] in ('die', 'die_bulk')
                            for op in sc['ops']) and \
        len(sc['tasks']) >= 2
    return res


def shrink(sc):
    out = list()
    ops = sc['ops']
    for i in range(len(ops)):
        if ops[i][0] in ('notify', 'die', 'die_bulk'):
            c = dict(sc); c['ops'] = ops[:i] + ops[i + 1:]; out.append(c)
    for i in range(len(ops)):
        if ops[i][0] == 'notify' and len(ops[i][1]) > 1:
            for j in range(len(ops[i][1])):
                c = dict(sc)
                c['ops'] = ops[:i] + [['notify', ops[i][1][:j] +
                                       ops[i][1][j + 1:]]] + ops[i + 1:]
                out.append(c)
    if sc['delay_max']:
        c = dict(sc); c['delay_max'] = 0.0; out.append(c)
    if sc.get('cb_race'):
        c = dict(sc); c['cb_race'] = None; out.append(c)
    return out


SEEDS  = {'quick': 2500, 'thorough': 100000}
BUDGET = {'quick': 240, 'thorough': 3000}

INFO = {
    'real': ['TaskManager._pilot_state_cb/_state_sub_cb/_update_tasks/'
             'add_pilots/submit_tasks', 'Task._update', 'PilotManager.'
             '_state_sub_cb/_update_pilot/submit_pilots', 'Pilot._update + '
             'callback dispatch', 'Session sandbox getters'],
    'stub': ['transport/registry (simulated)', 'pmgr launcher and tmgr '
             'components not started', 'agents (driver publishes task and '
             'pilot notifications)'],
    'rule': 'scenario = 2-3 pilots, 2-8 tasks (early bound, late bound, '
            'unbound) moved along seeded trajectories; pilots end (DONE/FAILED/'
            'CANCELED) at seeded crash points, with and without a sync point '
            'before the death, sometimes two deaths reported in one '
            'invocation of the manager callback; non-trivial = >=1 pilot death and >=2 tasks; '
            'distinct = distinct event-log digest',
    'assumptions': ['tasks with a notification in flight during an unsynced '
                    '(racy) pilot death are excluded from the oracle (both '
                    'outcomes are legitimate)'],
}
