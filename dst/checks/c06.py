'''
C06 - applications observe the linear task state model.

World B: real TaskManager + Task; the driver plays all agents and publishes
notification batches (with duplicates, reordering, skipped states, stale and
contradictory finals, unknown uids, pilot entries) on the state pubsub, while
an application thread submits more tasks and registers callbacks.

Oracle: refinement against a small reference model of the linear state machine,
applied to the batches in the order in which they are delivered to the manager.
'''

from ..worlds import common as C
from ..worlds import client as W
from ..       import kernel as K

rp, rps = C.rp, C.rps

PROP   = 'C06'
STATES = W.TASK_STATES
FINAL  = W.FINAL
VAL    = {s: i for i, s in enumerate(STATES)}
for _f in FINAL:
    VAL[_f] = len(STATES)


# ------------------------------------------------------------------------------
# reference model
#
class Model(object):

    def __init__(self):
        self.state = dict()     # uid -> state
        self.cbs   = dict()     # uid -> [states to be announced]

    def add(self, uid):
        self.state[uid] = rps.NEW
        self.cbs[uid]   = list()

    def notify(self, uid, target):
        if uid not in self.state:
            return
        cur = self.state[uid]
        if cur in FINAL:
            return
        if target in (rps.FAILED, rps.CANCELED):
            self.state[uid] = target
            self.cbs[uid].append(target)
            return
        if target not in VAL or VAL[target] <= VAL[cur]:
            return
        top = VAL[target]
        for i in range(VAL[cur] + 1, min(top, len(STATES))):
            self.cbs[uid].append(STATES[i])
        if target == rps.DONE:
            self.cbs[uid].append(rps.DONE)
        elif top < len(STATES):
            self.cbs[uid].append(target)
        self.state[uid] = target


# ------------------------------------------------------------------------------
# scenario generation (the explicit, minimisable op list)
#
def gen(rng, tier):

    if rng.random() < 0.15:
        # focus `pilots`: the C13 world (tasks on several pilots which end at
        # seeded points, mostly without a quiet period before the death) with
        # a task callback; log calls are blocking points, threads stall
        from . import c13
        sc = c13.gen(rng, tier)
        for op in sc['ops']:
            if op[0] == 'die' and rng.random() < 0.7:
                op[3] = True
        sc['ops'] = [op for i, op in enumerate(sc['ops'])
                     if not (op[0] == 'sync' and i + 1 < len(sc['ops']) and
                             sc['ops'][i + 1][0] == 'die' and
                             sc['ops'][i + 1][3])]
        sc.update({'c06_focus': True, 'cb_race': None,
                   'log_yield': rng.random() < 0.7,
                   'stall': rng.choice([0.0, 0.05, 0.2, 0.2]),
                   'kinds': ['pilot_death_race']})
        return sc

    n1 = rng.randint(1, 6)
    n2 = rng.randint(0, 3)                     # submitted later by app thread
    n  = n1 + n2
    notes = list()                             # [task, state, kind]
    kinds = set()
    for t in range(n):
        stop = rng.choice(['done', 'done', 'failed', 'canceled', 'open'])
        last = len(STATES) - 1
        if stop != 'done':
            last = rng.randint(1, len(STATES) - 1)
        traj = STATES[2:last + 1]              # 0,1 are announced by submit
        if stop == 'done'    : traj = traj + [rps.DONE]
        if stop == 'failed'  : traj = traj + [rps.FAILED]
        if stop == 'canceled': traj = traj + [rps.CANCELED]
        # skipped states (drop non-final)
        if rng.random() < 0.5:
            keep = [s for s in traj if s in FINAL or rng.random() < 0.6]
            if len(keep) < len(traj):
                kinds.add('skip')
            traj = keep
        seq = [[t, s, 'n'] for s in traj]
        # duplicates
        if seq and rng.random() < 0.4:
            i = rng.randrange(len(seq))
            seq.insert(i, list(seq[i]))
            kinds.add('dup')
        # local reordering
        if len(seq) > 1 and rng.random() < 0.4:
            i = rng.randrange(len(seq) - 1)
            j = min(len(seq) - 1, i + rng.randint(1, 4))
            seq[i], seq[j] = seq[j], seq[i]
            kinds.add('reorder')
        # stale non-final after the end
        if rng.random() < 0.3:
            seq.append([t, rng.choice(STATES[1:]), 'stale'])
            kinds.add('stale')
        # contradictory final
        if stop in ('done', 'failed', 'canceled') and rng.random() < 0.35:
            seq.append([t, rng.choice(FINAL), 'contra'])
            kinds.add('contra')
        notes.append(seq)

    # interleave the per-task sequences (keeping each task's order)
    merged = list()
    idx    = [0] * n
    live   = [t for t in range(n) if notes[t]]
    while live:
        t = rng.choice(live)
        merged.append(notes[t][idx[t]])
        idx[t] += 1
        if idx[t] >= len(notes[t]):
            live.remove(t)
    # noise entries
    for _ in range(rng.randint(0, 3)):
        pos = rng.randint(0, len(merged))
        if rng.random() < 0.5:
            merged.insert(pos, ['unknown', rng.choice(STATES + FINAL), 'unk'])
            kinds.add('unknown')
        else:
            merged.insert(pos, ['pilot', rps.PMGR_ACTIVE, 'pilot'])
            kinds.add('pilot_entry')
    # a *pilot's* entry whose uid equals the uid of one of the tasks (uids are
    # only unique per kind) - with a state name both models share
    if rng.random() < 0.25 and merged:
        merged.insert(rng.randint(0, len(merged)),
                      [rng.randrange(n), rng.choice(FINAL), 'pilot_same_uid'])
        kinds.add('pilot_same_uid')
    # cut into batches
    batches = list()
    i = 0
    while i < len(merged):
        k = rng.choice([1, 1, 2, 3, 5, 8, 20])
        batches.append(merged[i:i + k])
        i += k

    return {'n1': n1, 'n2': n2, 'batches': batches,
            'per_task_cb': sorted(rng.sample(range(n), rng.randint(0, n))),
            'raising_cb': rng.random() < 0.3,
            # callbacks which change the callback registry while they are
            # being dispatched: a per-task callback unregisters itself when
            # its task is final, the wildcard callback registers a second one
            'self_unreg': rng.random() < 0.3,
            'reg_in_cb': rng.random() < 0.2,
            'delay_max': rng.choice([0.0, 0.0, 0.05, 0.3]),
            'kinds': sorted(kinds)}


# ------------------------------------------------------------------------------
#
def run(seed, scenario, trace=None, tier='quick'):

    sc = scenario

    if sc.get('c06_focus'):
        from . import c13
        res = c13.run(seed, sc, trace=trace, tier=tier)
        res['violations'] = [v for v in res['violations']
                             if v['property'] == PROP]
        if res['status'] == 'violation' and not res['violations']:
            res['status'] = 'ok'
        return res

    def build(sim, cfg):

        model = Model()
        obs   = dict()          # uid -> [states announced to wildcard cb]
        obs_t = dict()          # uid -> [states announced to per-task cb]
        state_seen = dict()     # uid -> [Task.state samples]
        st    = {'tmgr': None, 'tasks': [], 'uids': [], 'ready2': False}
        sim.data['c06'] = (model, obs, st)

        def on_event(ev):
            if ev['kind'] == 'deliver' and ev.get('to') == 'tmgr' \
                    and ev.get('chan') == C.rpc.STATE_PUBSUB:
                m = ev['m']
                if m.get('cmd') == 'update':
                    tt = m.get('ttypes')
                    for k, (uid, state) in enumerate(m.get('things', [])):
                        if tt and tt[k] != 'task':
                            continue      # a pilot's entry: not for tasks
                        if isinstance(uid, str) and uid.startswith('task.'):
                            model.notify(uid, state)
        sim.listeners.append(on_event)

        def wild_cb(task, state):
            uid = task.uid
            lst = obs.setdefault(uid, [])
            lst.append(state)
            exp = model.cbs.get(uid, [])
            if lst != exp[:len(lst)]:
                clause = 'cb_repeat' if state in lst[:-1] else 'cb_order'
                sim.violation(PROP, clause, site_of(sim),
                              {'uid': uid, 'seen': list(lst),
                               'expected': list(exp)})
            if sc.get('reg_in_cb') and not st.get('cb2'):
                st['cb2'] = True
                sim.probe('cb_registers_callback')
                st['tmgr'].register_callback(wild_cb_2)
            if sc['raising_cb'] and len(lst) % 3 == 0:
                raise RuntimeError('application callback failed')

        def task_cb(task, state):
            obs_t.setdefault(task.uid, []).append(state)
            if sc.get('self_unreg') and state in FINAL:
                sim.probe('cb_unregisters_itself')
                try:
                    st['tmgr'].unregister_callback(cb=task_cb, uid=task.uid)
                except ValueError:
                    pass                      # already gone (repeated final)

        obs_2 = dict()          # uid -> [states] seen by the late wildcard cb

        def wild_cb_2(task, state):
            obs_2.setdefault(task.uid, []).append(state)

        def driver():
            side = W.make_client(sim)
            N    = C.N.net()
            N.delay_max = sc['delay_max']
            tmgr = W.make_tmgr(side, components=False)
            st['tmgr'] = tmgr
            tmgr.register_callback(wild_cb)
            pub  = W.state_publisher(side)

            def submit(k):
                tds = [rp.TaskDescription({'executable': '/bin/true'})
                       for _ in range(k)]
                for td in tds:
                    # the model must know the task before submit publishes
                    pass
                tasks = tmgr.submit_tasks(tds) if k else []
                return tasks

            # the model learns uids through a wrapper around _check_uid:
            # called under the tasks lock, before anything is published
            real_check = tmgr._check_uid

            def check_uid(uid):
                ok = real_check(uid)
                if ok:
                    model.add(uid)
                return ok
            tmgr._check_uid = check_uid

            tasks = submit(sc['n1'])
            st['tasks'] += tasks

            def app():
                # application thread: submits more work, registers callbacks
                more = submit(sc['n2'])
                st['tasks'] += more
                for i in sc['per_task_cb']:
                    if i < len(st['tasks']):
                        st['tasks'][i].register_callback(task_cb)
                st['ready2'] = True

            C.P.Thread(target=app, name='app').start()

            n1 = sc['n1']
            for batch in sc['batches']:
                arg = list()
                for t, state, kind in batch:
                    if t == 'unknown':
                        arg.append({'uid': 'task.unknown', 'type': 'task',
                                    'state': state})
                    elif t == 'pilot':
                        arg.append({'uid': 'pilot.0000', 'type': 'pilot',
                                    'state': state})
                    else:
                        if t >= n1 and not st['ready2']:
                            W.wait_until(sim, lambda: st['ready2'], 10.0)
                        if t >= len(st['tasks']):
                            continue
                        if kind == 'pilot_same_uid':
                            arg.append({'uid': st['tasks'][t].uid,
                                        'type': 'pilot', 'state': state})
                            continue
                        d = {'uid': st['tasks'][t].uid, 'type': 'task',
                             'state': state}
                        if state in FINAL:
                            d['target_state'] = state
                            d['exit_code']    = 0 if state == rps.DONE else 1
                        arg.append(d)
                if arg:
                    pub.put(C.rpc.STATE_PUBSUB, {'cmd': 'update', 'arg': arg})
                # sample Task.state like an application would
                for tk in st['tasks']:
                    state_seen.setdefault(tk.uid, []).append(tk.state)
                if sim.ch.coin(0.3):
                    sim.sleep(sim.ch.uniform(0.0, 0.2))

            W.wait_until(sim, lambda: st['ready2'], 10.0)
            W.wait_until(sim, lambda: N.idle(queues=False), 30.0)
            sim.sleep(1.0)
            for tk in st['tasks']:
                state_seen.setdefault(tk.uid, []).append(tk.state)

        def final(sim):
            tmgr = st['tmgr']
            for tk in st['tasks']:
                uid = tk.uid
                exp = model.cbs.get(uid, [])
                got = obs.get(uid, [])
                # Task.state samples: monotone, final is sticky
                seen = state_seen.get(uid, [])
                for a, b in zip(seen, seen[1:]):
                    if a in FINAL and b != a:
                        sim.violation(PROP, 'final_changed', site_of(sim),
                                      {'uid': uid, 'samples': seen})
                        break
                    if VAL[b] < VAL[a]:
                        sim.violation(PROP, 'state_backwards', site_of(sim),
                                      {'uid': uid, 'samples': seen})
                        break
                if got != exp:
                    clause = 'cb_missing' if got == exp[:len(got)] \
                        else 'cb_order'
                    if poisoned(sim, uid):
                        clause = 'batch_poisoned'
                    sim.violation(PROP, clause, site_of(sim),
                                  {'uid': uid, 'seen': got, 'expected': exp})
                if tk.state != model.state.get(uid):
                    clause = 'state_mismatch'
                    if poisoned(sim, uid):
                        clause = 'batch_poisoned'
                    sim.violation(PROP, clause, site_of(sim),
                                  {'uid': uid, 'state': tk.state,
                                   'model': model.state.get(uid)})
            for uid in sc['per_task_cb']:
                pass
            # per-task callbacks see the same announcements (from registration
            # on): must be a suffix-compatible subsequence of the wildcard view
            for uid, lst in obs_t.items():
                full = obs.get(uid, [])
                if sc.get('self_unreg'):
                    # it unregistered itself at the first final state
                    k = [i for i, x in enumerate(full) if x in FINAL]
                    if k:
                        full = full[:k[0] + 1]
                if lst != full[len(full) - len(lst):]:
                    sim.violation(PROP, 'per_task_cb_differs', site_of(sim),
                                  {'uid': uid, 'task_cb': lst, 'wild': full})
            for uid, lst in obs_2.items():
                full = obs.get(uid, [])
                if lst != full[len(full) - len(lst):]:
                    sim.violation(PROP, 'late_cb_differs', site_of(sim),
                                  {'uid': uid, 'late_cb': lst, 'wild': full})

        cfg['final'] = final
        return driver

    def poisoned(sim, uid):
        '''a callback error was raised while handling a batch which contained
        this task, and the task itself never got a contradictory final'''
        contra = set()
        for batch in sc['batches']:
            for t, s, kind in batch:
                if kind == 'contra':
                    contra.add(t)
        model, obs, st = sim.data['c06']
        idx = None
        for i, tk in enumerate(st['tasks']):
            if tk.uid == uid:
                idx = i
        errs = [e for e in sim.events if e['kind'] == 'cb_error'
                and e.get('to') == 'tmgr']
        return bool(errs) and idx not in contra

    def site_of(sim):
        errs = [e for e in sim.events if e['kind'] == 'cb_error'
                and e.get('to') == 'tmgr']
        if errs:
            return '%s:%s' % (errs[0]['cb'], errs[0]['exc'].split('(')[0])
        return 'no_exception'

    res = C.run_world(seed, build, trace=trace,
                      max_steps=40000 if tier == 'quick' else 200000)
    res['nontrivial'] = bool(sc['kinds']) and (sc['n1'] + sc['n2']) >= 2
    res['kinds'] = sc['kinds']
    return res


def shrink(sc):
    if sc.get('c06_focus'):
        from . import c13
        return c13.shrink(sc)
    '''candidate simplifications of a scenario (for ddmin style reduction)'''
    out = list()
    b = sc['batches']
    # drop a batch
    for i in range(len(b)):
        c = dict(sc); c['batches'] = b[:i] + b[i + 1:]; out.append(c)
    # drop an entry
    for i in range(len(b)):
        for j in range(len(b[i])):
            if len(b[i]) > 1:
                c = dict(sc)
                c['batches'] = b[:i] + [b[i][:j] + b[i][j + 1:]] + b[i + 1:]
                out.append(c)
    for k in ('raising_cb',):
        if sc[k]:
            c = dict(sc); c[k] = False; out.append(c)
    if sc['per_task_cb']:
        c = dict(sc); c['per_task_cb'] = []; out.append(c)
    if sc['delay_max']:
        c = dict(sc); c['delay_max'] = 0.0; out.append(c)
    if sc['n2']:
        used = {t for bb in b for t, s, k in bb if isinstance(t, int)}
        if not any(t >= sc['n1'] for t in used):
            c = dict(sc); c['n2'] = 0; out.append(c)
    return out


SEEDS  = {'quick': 3000, 'thorough': 150000}
BUDGET = {'quick': 240, 'thorough': 3000}

INFO = {
    'real': ['TaskManager._state_sub_cb/_update_tasks/_task_cb/submit_tasks/'
             'register_callback', 'Task._update', 'states._task_state_progress',
             'BaseComponent (work loop, subscriber callbacks under _cb_lock)'],
    'stub': ['ZMQ pubsub/queue bridges and registry (simulated transport)',
             'tmgr scheduler/stagers not started', 'agents (driver publishes '
             'their notifications)', 'logger/profiler/reporter'],
    'rule': 'scenario = seeded notification history over 1-9 tasks; '
            'non-trivial = >=2 tasks and >=1 mutation kind (dup/reorder/skip/'
            'stale/contradictory/unknown); distinct = distinct event-log '
            'digest',
}
