'''C08 - cancel stops the named tasks and nothing else'''
from . import agentsim as S

PROP  = 'C08'
KNOBS = {'max_tasks': 10, 'cancel_prob': 1.0, 'fail_share': 0.15,
         'racy_share': 0.2, 'grace_share': 0.3, 'preempt': 0.01}
gen, run = S.make_check(PROP, ['full', 'full', 'sched'], KNOBS,
                        lambda sc, res: bool(sc['ops']))
shrink = S.shrink
SEEDS  = {'quick': 1200, 'thorough': 40000}
BUDGET = {'quick': 240, 'thorough': 3000}
INFO   = dict(S.INFO)
INFO['rule'] = ('full agent / scheduler focus with 1-3 cancel requests naming '
                'seeded subsets at seeded instants; bystander outcomes are a '
                'function of the workload; non-trivial = >=1 cancel request; '
                'distinct = distinct event-log digest')
