'''C08 - cancel stops the named tasks and nothing else'''
from . import agentsim as S

PROP  = 'C08'
KNOBS = {'max_tasks': 10, 'cancel_prob': 1.0, 'fail_share': 0.15,
         'racy_share': 0.2, 'grace_share': 0.3, 'preempt': 0.01}
_gen, _run = S.make_check(PROP, ['full', 'full', 'sched'], KNOBS,
                          lambda sc, res: bool(sc['ops']))

# focus e2e: the request is issued by the application (TaskManager.
# cancel_tasks) and has to travel through the proxy to the pilot
from . import e2esim as E                                          # noqa
E2E_KNOBS = {'max_tasks': 6, 'fail_share': 0.1, 'spawn_fail_share': 0.0,
             'timeout_share': 0.0, 'sd_share': 0.0, 'cancel_prob': 1.0,
             'work_exc_prob': 0.0, 'io_fault_prob': 0.0, 'rich_sds': False,
             'long_cancel': True, 'real_pilot_prob': 0.0, 'ghost_prob': 0.0}
_egen, _erun = E.make_check(PROP, E2E_KNOBS, lambda sc, res: bool(sc['ops']))


def gen(rng, tier):
    if rng.random() < 0.15:
        sc = _egen(rng, tier)
        sc['focus'] = 'e2e'
        return sc
    return _gen(rng, tier)


def run(seed, sc, trace=None, tier='quick'):
    if sc.get('focus') == 'e2e':
        return _erun(seed, sc, trace, tier)
    return _run(seed, sc, trace, tier)


def shrink(sc):
    if sc.get('focus') == 'e2e':
        return [dict(c, focus='e2e') for c in E.shrink(sc)]
    return S.shrink(sc)
SEEDS  = {'quick': 1200, 'thorough': 40000}
BUDGET = {'quick': 240, 'thorough': 3000}
INFO   = dict(S.INFO)
INFO['real'] = INFO['real'] + ['focus e2e (15% of the runs): TaskManager.'
                               'cancel_tasks -> crosswire forwarders -> '
                               'proxy -> pilot side components (world E2E)']
INFO['rule'] = ('full agent / scheduler focus with 1-3 cancel requests naming '
                'seeded subsets at seeded instants; bystander outcomes are a '
                'function of the workload; non-trivial = >=1 cancel request; '
                'distinct = distinct event-log digest')
