'''C08 - cancel stops the named tasks and nothing else'''
from . import agentsim as S

PROP  = 'C08'
KNOBS = {'max_tasks': 10, 'cancel_prob': 1.0, 'fail_share': 0.15,
         'racy_share': 0.2, 'grace_share': 0.3, 'preempt': 0.01}
_gen, _run = S.make_check(PROP, ['full', 'full', 'sched'], KNOBS,
                          lambda sc, res: bool(sc['ops']))

# focus e2e: the request is issued by the application (TaskManager.
# cancel_tasks) and has to travel through the proxy to the pilot
from . import e2esim as E                                          # noqa
E2E_KNOBS = {'max_tasks': 6, 'fail_share': 0.1, 'spawn_fail_share': 0.0,
             'timeout_share': 0.0, 'sd_share': 0.0, 'cancel_prob': 1.0,
             'work_exc_prob': 0.0, 'io_fault_prob': 0.0, 'rich_sds': False,
             'long_cancel': True, 'real_pilot_prob': 0.0, 'ghost_prob': 0.0}
_egen, _erun = E.make_check(PROP, E2E_KNOBS, lambda sc, res: bool(sc['ops']))


# focus raptor: requests which wait in the scheduler's raptor backlog are
# named by a cancel request (world R of C20)
from . import c20 as R                                             # noqa


def gen(rng, tier):
    x = rng.random()
    if x < 0.15:
        sc = _egen(rng, tier)
        sc['focus'] = 'e2e'
        return sc
    if x < 0.25:
        sc = R.gen(rng, tier)
        sc['focus'] = 'raptor'
        sc['late_master'] = True
        sc['cancel_backlog'] = True
        for r in sc['reqs'][:rng.randint(2, 4)]:
            r['at'] = 0.0
            r.pop('via', None)
            if r['mode'] == 'executable':
                r['mode'], r['payload'], r['sleep'] = 'func', 'pl_ret', 0.0
        return sc
    return _gen(rng, tier)


def run(seed, sc, trace=None, tier='quick'):
    if sc.get('focus') == 'e2e':
        return _erun(seed, sc, trace, tier)
    if sc.get('focus') == 'raptor':
        res = R.run(seed, sc, trace, tier, prop=PROP)
        res['nontrivial'] = True
        return res
    return _run(seed, sc, trace, tier)


def shrink(sc):
    if sc.get('focus') == 'e2e':
        return [dict(c, focus='e2e') for c in E.shrink(sc)]
    if sc.get('focus') == 'raptor':
        return [dict(c, focus='raptor') for c in R.shrink(sc)
                if c.get('late_master') and len(c['reqs']) >= 2]
    return S.shrink(sc)
SEEDS  = {'quick': 1200, 'thorough': 40000}
BUDGET = {'quick': 240, 'thorough': 3000}
INFO   = dict(S.INFO)
INFO['real'] = INFO['real'] + ['focus raptor (10% of the runs): scheduler '
                               'raptor backlog + cancel request, world R',
                               'focus e2e (15% of the runs): TaskManager.'
                               'cancel_tasks -> crosswire forwarders -> '
                               'proxy -> pilot side components (world E2E)']
INFO['rule'] = ('full agent / scheduler focus with 1-3 cancel requests naming '
                'seeded subsets at seeded instants; bystander outcomes are a '
                'function of the workload; non-trivial = >=1 cancel request; '
                'distinct = distinct event-log digest')
