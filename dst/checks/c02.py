'''C02 - a granted placement has exactly the requested shape (agentsim.py)'''
from . import agentsim as S

PROP  = 'C02'
KNOBS = {'max_tasks': 14, 'cancel_prob': 0.2, 'tag_share': 0.3,
         'fail_share': 0.1, 'partition_share': 0.08,
         'deprecated_share': 0.15}
gen, run = S.make_check(PROP, ['sched', 'sched', 'sched', 'full', 'nodelist', 'jsrun'], KNOBS,
                        lambda sc, res: res.get('n_grants', 0) >= 2)
shrink = S.shrink
SEEDS  = {'quick': 1500, 'thorough': 60000}
BUDGET = {'quick': 240, 'thorough': 3000}
INFO   = dict(S.INFO)
INFO['rule'] = ('same worlds as C01 with more tagged tasks; every grant is '
                'compared with the task description as submitted; '
                'non-trivial = >=2 grants; distinct = distinct event-log '
                'digest')
