'''
C12 - each task is bound to exactly one eligible pilot.

World T: the real tmgr scheduler component (RoundRobin / Backfilling) with its
work loop, control listener and state listener; the driver plays the
TaskManager (submits task bulks, add/remove pilot commands) and all state
sources (pilot and task state notifications).
'''

import copy

import radical.utils as ru

from ..worlds import common as C
from ..worlds import client as W
from ..       import kernel as K
from ..       import net    as N

rp, rps, rpc, rpu = C.rp, C.rps, C.rpc, C.rpu

PROP = 'C12'
TMGR = 'tmgr.0000'


def gen(rng, tier):
    sched = rng.choice(['round_robin', 'backfilling'])
    n_pilots = rng.randint(1, 3)
    pilots = [{'cores': rng.choice([2, 4, 8])} for _ in range(n_pilots)]
    ops = list()
    n_tasks = 0
    status = ['never'] * n_pilots
    for step in range(rng.randint(3, 9)):
        r = rng.random()
        if r < 0.35:
            batch = list()
            for _ in range(rng.choice([1, 1, 2, 3, 5, 8])):
                kind = rng.random()
                if kind < 0.7:
                    pid = None
                elif kind < 0.95:
                    pid = rng.randrange(n_pilots)
                else:
                    pid = 'unknown'
                batch.append({'idx': n_tasks, 'pilot': pid,
                              'cores': rng.choice([1, 1, 2, 4])})
                n_tasks += 1
            ops.append(['submit', batch])
        elif r < 0.6:
            cand = [i for i in range(n_pilots) if status[i] != 'added']
            if cand:
                k = rng.randint(1, len(cand))
                sel = sorted(rng.sample(cand, k))
                for i in sel:
                    status[i] = 'added'
                ops.append(['add', sel, rng.choice(
                    [rps.PMGR_LAUNCHING, rps.PMGR_ACTIVE, rps.PMGR_ACTIVE])])
        elif r < 0.7:
            cand = [i for i in range(n_pilots) if status[i] == 'added']
            if cand:
                # one command may take several pilots out (adjacent or not
                # in the scheduler's own pilot list)
                k = min(len(cand), rng.choice([1, 1, 2, 2, 3]))
                sel = rng.sample(cand, k)
                if rng.random() < 0.7:
                    sel = sorted(sel)
                for i in sel:
                    status[i] = 'removed'
                ops.append(['remove', sel])
        elif r < 0.85:
            i = rng.randrange(n_pilots)
            ops.append(['pstate', i, rng.choice(
                [rps.PMGR_ACTIVE_PENDING, rps.PMGR_ACTIVE, rps.PMGR_ACTIVE,
                 rps.PMGR_ACTIVE, rps.DONE, rps.FAILED])])
        else:
            ops.append(['complete', rng.randint(1, 6),
                        rng.random() < 0.3])
        if rng.random() < 0.6:
            ops.append(['sync'])
    ops.append(['sync'])
    ops.append(['complete', 99, False])
    ops.append(['sync'])
    return {'sched': sched, 'pilots': pilots, 'ops': ops,
            'delay_max': rng.choice([0.0, 0.0, 0.05])}


def run(seed, scenario, trace=None, tier='quick'):

    sc = scenario

    def build(sim, cfg):

        st = {'comp': None, 'forwards': [], 'handed': {}, 'tasks': {},
              'pstatus': {}, 'flux': set(), 'pstate': {}, 'pstate_flux': set(),
              'completed': set(), 'published_done': set(), 'failed': set(),
              'syncs': 0}

        def on_event(ev):
            who = str(ev.get('who') or '')
            if ev['kind'] == 'q_get' and \
                    ev.get('chan') == rpc.TMGR_SCHEDULING_QUEUE:
                for uid, _ in ev['m'].get('things', []):
                    st['handed'][uid] = {
                        'seq': ev['seq'],
                        'pstatus': dict(st['pstatus']),
                        'flux': set(st['flux'])}
            elif ev['kind'] == 'q_put' and \
                    ev.get('chan') == rpc.TMGR_STAGING_INPUT_QUEUE:
                bulk = list()
                for t in ev.get('obj') or []:
                    rec = {'uid': t['uid'], 'pilot': t.get('pilot'),
                           'seq': ev['seq'],
                           'sandboxes': all(t.get(k) for k in (
                               'task_sandbox', 'pilot_sandbox',
                               'session_sandbox', 'resource_sandbox',
                               'client_sandbox', 'task_sandbox_path')),
                           'pstatus': dict(st['pstatus']),
                           'flux': set(st['flux']),
                           'pstate': dict(st['pstate']),
                           'pstate_flux': set(st['pstate_flux']),
                           'used_lb': used_lower_bound(t.get('pilot'))}
                    bulk.append(rec)
                    st['forwards'].append(rec)
                st.setdefault('bulks', []).append(bulk)
            elif ev['kind'] == 'pub' and ev.get('chan') == rpc.STATE_PUBSUB \
                    and 'scheduling' in who:
                for uid, state in ev['m'].get('things', []):
                    if state == rps.FAILED:
                        st['failed'].add(uid)
        sim.listeners.append(on_event)

        def used_lower_bound(pid):
            tot = 0
            for f in st['forwards']:
                if f['pilot'] == pid and f['uid'] not in st['published_done']:
                    tk = st['tasks'].get(f['uid'])
                    if tk and tk['spec']['pilot'] is None:
                        tot += tk['spec']['cores']
            return tot

        def driver():
            side = W.make_client(sim)
            side.add_queue(rpc.TMGR_SCHEDULING_QUEUE)
            side.add_queue(rpc.TMGR_STAGING_INPUT_QUEUE)
            net = N.net()
            net.delay_max = sc['delay_max']
            reg = side.reg
            uid = 'tmgr_scheduling.0000'
            ccfg = ru.Config(from_dict={
                'uid': uid, 'kind': 'tmgr_scheduling', 'owner': TMGR,
                'sid': 'rp.session.sim', 'scheduler': sc['sched'],
                'reg_addr': side.reg_url, 'cmgr_url': None})
            with C.group(uid):
                comp = rpu.BaseComponent.create(ccfg, side.session)
                comp.start()
            st['comp'] = comp
            put = N.Putter(rpc.TMGR_SCHEDULING_QUEUE, url=reg[
                'bridges.%s' % rpc.TMGR_SCHEDULING_QUEUE]['addr_put'])
            ctl = W.control_publisher(side)
            spub = W.state_publisher(side)

            pds = list()
            for i, p in enumerate(sc['pilots']):
                pid = 'pilot.%04d' % i
                pds.append({'uid': pid, 'type': 'pilot', 'state': rps.NEW,
                            'description': {'resource': 'local.localhost',
                                            'cores': p['cores'],
                                            'sandbox': '/nonexistent/sbox',
                                            'access_schema': None},
                            'pilot_sandbox': ''})
                st['pstatus'][pid] = 'never'
                st['pstate'][pid]  = None

            def sync():
                W.wait_until(sim, lambda: net.idle(queues=False) and not
                             side.net.queues[reg['bridges.%s' % rpc.TMGR_SCHEDULING_QUEUE]['addr_put'].split('#')[0]].bufs.get('default'), 30.0)
                sim.sleep(0.5)
                st['flux'] = set()
                st['pstate_flux'] = set()
                st['syncs'] += 1

            sync()
            for op in sc['ops']:
                if op[0] == 'submit':
                    tasks = list()
                    for spec in op[1]:
                        tuid = 'task.%06d' % spec['idx']
                        d = {'executable': '/bin/true', 'ranks': 1,
                             'cores_per_rank': spec['cores']}
                        td = rp.TaskDescription(d)
                        td.uid = tuid
                        pid = None
                        if spec['pilot'] == 'unknown':
                            pid = 'pilot.9999'
                        elif spec['pilot'] is not None:
                            pid = 'pilot.%04d' % spec['pilot']
                        td.pilot = pid
                        td.verify()
                        t = {'uid': tuid, 'type': 'task', 'origin': 'client',
                             'state': rps.TMGR_SCHEDULING_PENDING,
                             'tmgr': TMGR, 'pilot': pid,
                             'description': td.as_dict()}
                        st['tasks'][tuid] = {'spec': spec, 'named': pid,
                                             'submit_sync': st['syncs']}
                        tasks.append(t)
                    put.put(tasks)
                elif op[0] == 'add':
                    docs = list()
                    for i in op[1]:
                        d = copy.deepcopy(pds[i])
                        d['state'] = op[2]
                        docs.append(d)
                        st['pstatus'][d['uid']] = 'added'
                        st['flux'].add(d['uid'])
                        st['pstate_flux'].add(d['uid'])
                        st['pstate'][d['uid']] = merge_state(
                            st['pstate'][d['uid']], op[2])
                    ctl.put(rpc.CONTROL_PUBSUB, {
                        'cmd': 'add_pilots',
                        'arg': {'pilots': docs, 'tmgr': TMGR}})
                elif op[0] == 'remove':
                    pids = ['pilot.%04d' % i for i in op[1]]
                    for pid in pids:
                        st['pstatus'][pid] = 'removed'
                        st['flux'].add(pid)
                    ctl.put(rpc.CONTROL_PUBSUB, {
                        'cmd': 'remove_pilots',
                        'arg': {'pids': pids, 'tmgr': TMGR}})
                elif op[0] == 'pstate':
                    pid = 'pilot.%04d' % op[1]
                    st['pstate_flux'].add(pid)
                    st['pstate'][pid] = merge_state(st['pstate'][pid], op[2])
                    spub.put(rpc.STATE_PUBSUB, {'cmd': 'update', 'arg': [
                        {'uid': pid, 'type': 'pilot', 'state': op[2]}]})
                elif op[0] == 'complete':
                    # completion notifications for forwarded tasks, one bulk,
                    # possibly mixing pilots; optionally duplicated
                    cand = [f for f in st['forwards']
                            if f['uid'] not in st['published_done']]
                    cand = cand[:op[1]]
                    if cand:
                        arg = list()
                        for f in cand:
                            tk = st['tasks'][f['uid']]
                            arg.append({'uid': f['uid'], 'type': 'task',
                                        'state': rps.AGENT_STAGING_OUTPUT_PENDING,
                                        'pilot': f['pilot'],
                                        'description': {
                                            'ranks': 1, 'cores_per_rank':
                                            tk['spec']['cores']}})
                            st['published_done'].add(f['uid'])
                        spub.put(rpc.STATE_PUBSUB, {'cmd': 'update',
                                                    'arg': arg})
                        if op[2]:
                            sim.fault('dup')
                            spub.put(rpc.STATE_PUBSUB, {'cmd': 'update',
                                                        'arg': arg})
                elif op[0] == 'sync':
                    sync()
            sync()

        def merge_state(cur, new):
            # reference of the linear pilot model
            from .c14 import PVAL
            if cur in W.FINAL:
                return cur
            if new in (rps.FAILED, rps.CANCELED):
                return new
            if cur is None or PVAL.get(new, -1) > PVAL.get(cur, -1):
                return new
            return cur

        def final(sim):
            comp = st['comp']
            errs = [e for e in sim.events if e['kind'] in ('cb_error',)
                    and 'scheduling' in str(e.get('to'))]
            site = sc['sched']
            if errs:
                site = '%s:%s:%s' % (sc['sched'], errs[0]['cb'],
                                     errs[0]['exc'].split('(')[0])
            cnt = dict()
            for f in st['forwards']:
                cnt[f['uid']] = cnt.get(f['uid'], 0) + 1
            for uid, n in sorted(cnt.items()):
                if n > 1:
                    sim.violation(PROP, 'forwarded_twice', site,
                                  {'uid': uid, 'n': n, 'named':
                                   st['tasks'][uid]['named']})
            for f in st['forwards']:
                tk = st['tasks'].get(f['uid'])
                if not tk:
                    continue
                if not f['sandboxes']:
                    sim.violation(PROP, 'sandbox_missing', site, f['uid'])
                if tk['named']:
                    if f['pilot'] != tk['named']:
                        sim.violation(PROP, 'wrong_pilot', site,
                                      {'uid': f['uid'], 'named': tk['named'],
                                       'got': f['pilot']})
                    continue
                pid = f['pilot']
                if pid not in st['pstatus'] or (
                        f['pstatus'].get(pid) == 'never'
                        and pid not in f['flux']):
                    sim.violation(PROP, 'unknown_pilot', site,
                                  {'uid': f['uid'], 'pilot': pid})
                    continue
                h = st['handed'].get(f['uid'])
                if h and h['pstatus'].get(pid) == 'removed' and \
                        pid not in h['flux'] and \
                        f['pstatus'].get(pid) == 'removed' and \
                        pid not in f['flux']:
                    sim.violation(PROP, 'removed_pilot', site,
                                  {'uid': f['uid'], 'pilot': pid})
                if sc['sched'] == 'backfilling':
                    ps = f['pstate'].get(pid)
                    if pid not in f['pstate_flux'] and pid not in f['flux'] \
                            and ps != rps.PMGR_ACTIVE:
                        sim.violation(PROP, 'bf_ineligible', site,
                                      {'uid': f['uid'], 'pilot': pid,
                                       'state': ps})
                    cores = sc['pilots'][int(pid[-4:])]['cores']
                    hwm   = int(cores * 200 / 100)
                    if f['used_lb'] >= hwm:
                        sim.violation(PROP, 'bf_over_hwm', site,
                                      {'uid': f['uid'], 'pilot': pid,
                                       'used': f['used_lb'], 'hwm': hwm})
            # round robin balance per forwarded bulk over a stable pilot set
            if sc['sched'] == 'round_robin':
                for bulk in st.get('bulks', []):
                    un = [f for f in bulk
                          if not st['tasks'][f['uid']]['named']]
                    if not un:
                        continue
                    if un[0]['flux']:
                        continue
                    added = [p for p, s in un[0]['pstatus'].items()
                             if s == 'added']
                    if not added:
                        continue
                    load = {p: 0 for p in added}
                    ok = True
                    for f in un:
                        if f['pilot'] not in load:
                            ok = False
                            break
                        load[f['pilot']] += 1
                    if ok and max(load.values()) - min(load.values()) > 1:
                        sim.violation(PROP, 'rr_unbalanced', site,
                                      {'load': load})
            # the scheduler has no reason of its own to fail a task: "tasks
            # wait while no eligible pilot exists"
            for uid in sorted(st['failed']):
                tk = st['tasks'].get(uid)
                if tk is not None:
                    sim.violation(PROP, 'failed_by_scheduler', site,
                                  {'uid': uid, 'named': tk['named'],
                                   'pstatus': dict(st['pstatus'])})
            # liveness at quiescence
            end_added = [p for p, s in st['pstatus'].items() if s == 'added']
            for uid, tk in sorted(st['tasks'].items()):
                if uid in cnt or uid in st['failed']:
                    continue
                if tk['named']:
                    if st['pstatus'].get(tk['named']) == 'added':
                        sim.violation(PROP, 'never_forwarded', site,
                                      {'uid': uid, 'named': tk['named']})
                    continue
                if sc['sched'] == 'round_robin' and end_added:
                    sim.violation(PROP, 'never_forwarded', site,
                                  {'uid': uid, 'pilots': end_added})
                if sc['sched'] == 'backfilling':
                    elig = list()
                    for p in end_added:
                        cores = sc['pilots'][int(p[-4:])]['cores']
                        if st['pstate'].get(p) == rps.PMGR_ACTIVE and \
                                used_final(p) < int(cores * 2):
                            elig.append(p)
                    if elig:
                        sim.violation(PROP, 'never_forwarded', site,
                                      {'uid': uid, 'eligible': elig})
            # backfilling usage returns to zero
            if sc['sched'] == 'backfilling':
                for pid, p in comp._pilots.items():
                    info = p.get('info') or {}
                    if 'used' not in info:
                        continue
                    mine = [f for f in st['forwards'] if f['pilot'] == pid]
                    if mine and all(f['uid'] in st['published_done']
                                    for f in mine) and info['used'] != 0:
                        sim.violation(PROP, 'bf_usage_residue', site,
                                      {'pilot': pid, 'used': info['used']})

        def used_final(pid):
            tot = 0
            for f in st['forwards']:
                if f['pilot'] == pid and f['uid'] not in st['published_done']:
                    tk = st['tasks'].get(f['uid'])
                    if tk and not tk['named']:
                        tot += tk['spec']['cores']
            return tot

        cfg['final'] = final
        return driver

    res = C.run_world(seed, build, trace=trace,
                      max_steps=80000 if tier == 'quick' else 300000)
    res['nontrivial'] = sum(1 for o in sc['ops'] if o[0] in
                            ('submit', 'add', 'remove')) >= 3
    return res


def shrink(sc):
    out = list()
    ops = sc['ops']
    for i in range(len(ops)):
        if ops[i][0] != 'sync' or True:
            c = dict(sc); c['ops'] = ops[:i] + ops[i + 1:]; out.append(c)
    for i, op in enumerate(ops):
        if op[0] == 'submit' and len(op[1]) > 1:
            for j in range(len(op[1])):
                c = dict(sc)
                c['ops'] = ops[:i] + [['submit', op[1][:j] + op[1][j + 1:]]] \
                    + ops[i + 1:]
                out.append(c)
    if sc['delay_max']:
        c = dict(sc); c['delay_max'] = 0.0; out.append(c)
    return out


SEEDS  = {'quick': 2500, 'thorough': 100000}
BUDGET = {'quick': 240, 'thorough': 3000}

INFO = {
    'real': ['TMGRSchedulingComponent.work/control_cb/_base_state_cb/'
             '_update_pilot_states/_assign_pilot', 'RoundRobin', 'Backfilling',
             'Session sandbox getters', 'BaseComponent work loop'],
    'stub': ['transport/registry (simulated)', 'TaskManager, pilot manager '
             'and agents (driver issues commands and notifications)'],
    'rule': 'scenario = RR or backfilling, 1-3 pilots, op sequence of submit '
            'bulks (unbound / naming known, unknown or removed pilots), add, '
            'remove (+ re-add), pilot state notifications, completion bulks '
            '(mixing pilots, duplicates), sync points; non-trivial = >=3 '
            'submit/add/remove ops; distinct = distinct event-log digest',
    'assumptions': ['pilot membership / pilot state changes count as "in '
                    'flux" until the next sync point; eligibility clauses '
                    'only fire on stable status'],
}
