'''
World A / X: the pilot side.  Real agent components (staging in, scheduler
parent + forked child, executor Popen/NOOP, staging out), real ResourceManager
(init from scratch) and real launch methods (init from generated registry
info) on a simulated pilot side; the driver plays the client (feeds tasks,
sends control messages) and owns the simulated task processes.
'''

import os
import copy

import radical.utils as ru

from .  import common as C
from .. import kernel as K
from .. import net    as N
from .. import prims  as P

rp, rps, rpc, rpu = C.rp, C.rps, C.rpc, C.rpu

PID = 'pilot.0000'
SID = 'rp.session.sim'

PUBSUBS = [rpc.CONTROL_PUBSUB, rpc.STATE_PUBSUB, rpc.AGENT_UNSCHEDULE_PUBSUB]
QUEUES  = [rpc.AGENT_STAGING_INPUT_QUEUE, rpc.AGENT_SCHEDULING_QUEUE,
           rpc.AGENT_EXECUTING_QUEUE, rpc.AGENT_STAGING_OUTPUT_QUEUE,
           rpc.AGENT_COLLECTING_QUEUE]


# ------------------------------------------------------------------------------
# launch method registry info (what `init_from_scratch` would have found)
#
def lm_info(name, layout=None):
    env = {'env': {}, 'env_sh': 'env/lm_%s.sh' % name.lower()}
    n = name.upper()
    if n == 'FORK':
        return dict(env)
    if n.startswith('MPIRUN'):
        d = dict(env)
        d.update({'command': '/sim/bin/mpirun', 'mpt': n == 'MPIRUN_MPT',
                  'rsh': n == 'MPIRUN_RSH', 'ccmrun': '/sim/bin/ccmrun'
                  if n == 'MPIRUN_CCMRUN' else '',
                  'dplace': '/sim/bin/dplace'
                  if n == 'MPIRUN_DPLACE' else '',
                  'omplace': '', 'mpi_version': '4.1',
                  'mpi_flavor': (layout or {}).get('mpi_flavor', 'OMPI')})
        return d
    if n.startswith('MPIEXEC'):
        d = dict(env)
        d.update({'command': '/sim/bin/mpiexec', 'mpt': n == 'MPIEXEC_MPT',
                  'rsh': False, 'dplace': '', 'ccmrun': '',
                  'omplace': '', 'use_rf': (layout or {}).get('use_rf', False),
                  'use_hf': (layout or {}).get('use_hf', False),
                  'can_os': False, 'mpi_version': '4.1',
                  'mpi_flavor': (layout or {}).get('mpi_flavor', 'OMPI')})
        return d
    if n == 'SRUN':
        d = dict(env)
        ver = (layout or {}).get('srun_version', '22.05')
        d.update({'command': '/sim/bin/srun', 'version': ver,
                  'vmajor': int(ver.split('.')[0])})
        return d
    if n in ('SSH', 'RSH'):
        d = dict(env)
        d.update({'command': '/sim/bin/%s' % n.lower()})
        return d
    if n == 'APRUN':
        d = dict(env)
        d.update({'command': '/sim/bin/aprun'})
        return d
    if n == 'IBRUN':
        d = dict(env)
        d.update({'command': '/sim/bin/ibrun'})
        return d
    if n == 'CCMRUN':
        d = dict(env)
        d.update({'command': '/sim/bin/ccmrun'})
        return d
    if n.startswith('JSRUN'):
        d = dict(env)
        d.update({'command': '/sim/bin/jsrun', 'erf': n == 'JSRUN_ERF'})
        return d
    if n == 'PRTE':
        # what PRTE._configure would report: the allocation's nodes split
        # evenly over `prte_dvms` DVMs (partitions), one URI each
        lay = layout or {}
        n_nodes = (lay.get('nodes') or 0) + (lay.get('agent_nodes') or 0)
        k   = max(1, min(int(lay.get('prte_dvms') or 1), n_nodes or 1))
        per = -(-n_nodes // k) if n_nodes else 0
        d = dict(env)
        d.update({'command': '/sim/bin/prun', 'details': {
            'dvm_list': {i: {'nodes': list(range(i * per,
                                                 min(n_nodes, (i + 1) * per))),
                             'dvm_uri': 'prte://dvm.%d' % i}
                         for i in range(k)},
            'version_info': {'name': 'PRRTE', 'version': '2.0'}}})
        return d
    raise K.HarnessError('no lm_info for %s' % name)


DEFAULT_LAYOUT = {
    'nodes': 2, 'cpn': 4, 'gpn': 1, 'lfs': 0, 'mem': 0,
    'blocked_cores': [], 'blocked_gpus': [], 'agent_nodes': 0,
    'scattered': True, 'rm': 'FORK', 'sched': 'CONTINUOUS',
    'spawner': 'POPEN', 'lms': ['FORK', 'MPIRUN'],
}


# ------------------------------------------------------------------------------
#
def make_pilot(sim, layout, root, sandboxes=None):
    '''set up the pilot side and return it (components not yet started)'''

    lay = dict(DEFAULT_LAYOUT)
    lay.update(layout or {})

    side = C.Side(sim, PID)
    sim.data['sides_by_reg'][side.reg_url] = side
    for ps in PUBSUBS:
        side.add_pubsub(ps)
    for q in QUEUES:
        side.add_queue(q)

    rsbox = '%s/rsbox' % root
    ssbox = '%s/%s' % (rsbox, SID)
    psbox = '%s/%s' % (ssbox, PID)
    if sandboxes:
        rsbox, ssbox, psbox = sandboxes
    os.makedirs(psbox + '/env', exist_ok=True)
    os.chdir(psbox)
    os.environ['TMPDIR'] = '%s/tmp' % root

    n_total = lay['nodes'] + lay['agent_nodes']
    agents  = {'agent_%d' % (i + 1): {'target': 'node'}
               for i in range(lay['agent_nodes'])}

    cfg = {'sid': SID, 'pid': PID, 'uid': 'agent_0', 'owner': PID,
           'reg_addr': side.reg_url, 'path': psbox, 'base': root,
           'resource': 'local.localhost',
           'resource_sandbox': rsbox, 'session_sandbox': ssbox,
           'pilot_sandbox': psbox,
           'nodes': n_total, 'cores': n_total * lay['cpn'],
           'gpus': n_total * lay['gpn'],
           'cores_per_node': lay['cpn'], 'gpus_per_node': lay['gpn'],
           'lfs_size_per_node': lay['lfs'], 'lfs_path_per_node': '/tmp',
           'backup_nodes': 0, 'agents': agents, 'proxy_url': None}
    lms = {'order': list(lay['lms'])}
    for name in lay['lms']:
        lms[name] = {'pre_exec_cached': []}
        if name == 'IBRUN' and lay.get('ibrun_tpn'):
            lms[name]['options'] = {'tasks_per_node': lay['ibrun_tpn']}
        side.reg['lm.%s' % name.lower()] = lm_info(name, lay)
    rcfg = {'resource_manager': lay['rm'], 'agent_scheduler': lay['sched'],
            'agent_spawner': lay['spawner'] if lay['spawner'] != 'STUB'
            else 'POPEN',
            'launch_methods': lms, 'mem_per_node': lay['mem'],
            'numa_domain_map': {}, 'n_partitions': 1,
            'fake_resources': True, 'scattered': lay['scattered'],
            'new_session_per_task': False,
            'system_architecture': {'blocked_cores': lay['blocked_cores'],
                                    'blocked_gpus' : lay['blocked_gpus']}}
    side.reg['cfg']  = cfg
    side.reg['rcfg'] = rcfg
    sim.data['hostname'] = lay.get('hostname', 'localhost')
    if lay['rm'] == 'SLURM':
        if lay.get('short_names'):
            # n1 .. nN: some node names are prefixes of others (n1 / n10)
            os.environ['SLURM_NODELIST'] = ','.join(
                'n%d' % i for i in range(1, n_total + 1))
        else:
            os.environ['SLURM_NODELIST'] = 'node[%03d-%03d]' % (1, n_total)
        os.environ['SLURM_CPUS_ON_NODE'] = str(lay['cpn'])

    sess = C.SimSession(side, SID, rp.Session._AGENT_0, cfg, rcfg=rcfg,
                        module=PID)
    side.session = sess
    side.layout  = lay
    side.cfg     = cfg
    side.psbox   = psbox
    return side


def start_components(side, kinds):
    '''start the real agent components named in `kinds`'''
    comps = dict()
    for kind in kinds:
        uid = C.RUP.generate_id(kind + '.%(item_counter)04d')
        c = ru.Config(from_dict={'uid': uid, 'kind': kind, 'owner': PID,
                                 'sid': SID, 'cmgr_url': None,
                                 'reg_addr': side.reg_url,
                                 'path': side.psbox})
        with C.group(uid):
            comp = rpu.BaseComponent.create(c, side.session)
            comp.start()
        comps[kind] = comp
        side.comps[uid] = comp
    return comps


# ------------------------------------------------------------------------------
# task dicts as they arrive at the agent
#
def make_task(side, uid, descr, state=rps.AGENT_STAGING_INPUT_PENDING):
    td = rp.TaskDescription(dict(descr))
    td.uid = uid
    td.verify()
    d  = td.as_dict()
    cfg = side.cfg
    tsbox = '%s/%s' % (cfg['pilot_sandbox'], uid)
    task = {'uid': uid, 'type': 'task', 'state': state, 'origin': 'client',
            'name': uid, 'description': d, 'pilot': PID,
            'tmgr': 'tmgr.0000',
            'client_sandbox'   : 'file://localhost%s/client' % cfg['base'],
            'endpoint_fs'      : 'file://localhost/',
            'resource_sandbox' : 'file://localhost%s' % cfg['resource_sandbox'],
            'session_sandbox'  : 'file://localhost%s' % cfg['session_sandbox'],
            'pilot_sandbox'    : 'file://localhost%s/' % cfg['pilot_sandbox'],
            'task_sandbox'     : 'file://localhost%s/' % tsbox,
            'task_sandbox_path': tsbox + '/'}
    return task


# ------------------------------------------------------------------------------
# slot normalisation (new and old/jsrun formats)
#
def _ro(x):
    if isinstance(x, dict):
        return int(x['index']), float(x.get('occupation', 1.0))
    if isinstance(x, (list, tuple)):
        return int(x[0]), float(x[1])
    return int(x), 1.0


def norm_slots(slots, jsrun=False):
    '''-> [ {node_index, node_name, cores:[(i,occ)], gpus:[(i,occ)], lfs, mem}]

    jsrun: the slot format of ContinuousJsrun - one entry per resource set,
    `cores` = one core list per rank, `gpus` = the GPUs of the resource set
    (repeated per rank, shared by its ranks), lfs/mem per resource set.  One
    normalised entry per rank, the shared GPUs with occupation 1/ranks.'''
    out = list()
    if not slots:
        return out
    if jsrun:
        for s in slots:
            n = max(len(s['cores']), 1)
            gset = sorted({int(g) for gm in s.get('gpus') or [] for g in gm})
            for cm in s['cores']:
                out.append({'node_index': s.get('node_index'),
                            'node_name': s.get('node_name'),
                            'cores': [(int(c), 1.0) for c in cm],
                            'gpus': [(g, 1.0 / n) for g in gset],
                            'lfs': (s.get('lfs') or 0) / n,
                            'mem': (s.get('mem') or 0) / n,
                            'rs_ranks': n})
        return out
    if isinstance(slots, dict) and 'ranks' in slots:
        slots = slots['ranks']
    for s in slots:
        cores, gpus = list(), list()
        if 'core_map' in s:
            # old format: one entry per rank: core_map [[..]], gpu_map [[..]]
            for cm in s.get('core_map', []):
                cores += [(int(c), 1.0) for c in cm]
            for gm in s.get('gpu_map', []):
                gpus += [(int(g), 1.0) for g in gm]
            out.append({'node_index': s.get('node_index', s.get('node_id')),
                        'node_name': s.get('node_name', s.get('node')),
                        'cores': cores, 'gpus': gpus,
                        'lfs': (s.get('lfs') or {}).get('size', 0)
                        if isinstance(s.get('lfs'), dict) else s.get('lfs', 0),
                        'mem': s.get('mem', 0)})
            continue
        cores = [_ro(c) for c in (s.get('cores') or [])]
        gpus  = [_ro(g) for g in (s.get('gpus')  or [])]
        out.append({'node_index': s.get('node_index'),
                    'node_name': s.get('node_name'),
                    'cores': cores, 'gpus': gpus,
                    'lfs': s.get('lfs') or 0, 'mem': s.get('mem') or 0})
    return out


# ------------------------------------------------------------------------------
# simulated task processes: the plan is looked up by the launch script path
#
def install_proc_plan(sim, plans):
    '''plans: uid -> dict(runtime, rc, spawn_error, racy, term_grace)'''

    def plan(args, kwargs):
        path = str(args)
        uid  = os.path.basename(path).replace('.launch.sh', '')
        p    = dict(plans.get(uid) or {'runtime': 0.1, 'rc': 0})
        p['tag'] = uid
        if p.get('spawn_error'):
            p['spawn_error'] = OSError(8, 'Exec format error (injected)')
        return p
    sim.data['proc_plan'] = plan


# ------------------------------------------------------------------------------
# a stub executor for scheduler focused runs (DESIGN world A "scheduler focus")
#
class StubExecutor(object):

    def __init__(self, sim, side, plans):
        self.sim, self.side, self.plans = sim, side, plans
        reg = side.reg
        self.get = N.Getter(rpc.AGENT_EXECUTING_QUEUE,
                            url=reg['bridges.%s' % rpc.AGENT_EXECUTING_QUEUE]
                            ['addr_get'])
        self.pub = N.Publisher(rpc.AGENT_UNSCHEDULE_PUBSUB,
                               url=reg['bridges.%s' %
                                       rpc.AGENT_UNSCHEDULE_PUBSUB]['addr_pub'])
        self.running = list()
        self.done    = list()
        self.thread  = sim.spawn(self.loop, 'stubexec', group='stubexec')

    def loop(self):
        sim = self.sim
        while True:
            tasks = self.get.get_nowait(timeout=50)
            for t in tasks or []:
                p = self.plans.get(t['uid']) or {'runtime': 0.1}
                self.running.append([sim.now + p.get('runtime', 0.1), t])
            due = [x for x in self.running if x[0] <= sim.now]
            if due:
                self.running = [x for x in self.running if x[0] > sim.now]
                tl = [t for _, t in due]
                self.done += [t['uid'] for t in tl]
                self.pub.put(rpc.AGENT_UNSCHEDULE_PUBSUB, tl)
