'''
World E2E: client (real TaskManager + tmgr scheduler + tmgr stagers), the proxy
channels, and one pilot (real agent_0 proxy in/out callbacks, agent stagers,
scheduler parent + child, Popen executor).  Pilot launching is played by the
driver; task processes are simulated.
'''

import os

import radical.utils as ru

from .  import common as C
from .  import client as W
from .  import agent  as A
from .. import kernel as K
from .. import net    as N

rp, rps, rpc, rpu = C.rp, C.rps, C.rpc, C.rpu

SID = 'rp.session.sim'
PID = A.PID


def build(sim, root, layout=None, scheduler=None, real_pilot=False):
    '''returns dict(client=, pilot=, tmgr=, agent0=, pilot_doc=)'''

    net = N.net()
    rsbox = '%s/remote/radical.pilot.sandbox' % root
    ssbox = '%s/%s' % (rsbox, SID)
    psbox = '%s/%s' % (ssbox, PID)
    csbox = '%s/client' % root
    os.makedirs(csbox, exist_ok=True)
    os.makedirs('%s/tmp' % root, exist_ok=True)
    import tempfile
    tempfile.tempdir = '%s/tmp' % root

    # proxy channels ------------------------------------------------------------
    pside = C.Side(sim, 'proxy')
    p_ctrl  = pside.add_pubsub(rpc.PROXY_CONTROL_PUBSUB)
    p_state = pside.add_pubsub(rpc.PROXY_STATE_PUBSUB)
    p_taskq = pside.add_queue(rpc.PROXY_TASK_QUEUE)

    # client --------------------------------------------------------------------
    cside = W.make_client(sim, root=root, sid=SID)
    cside.alias(rpc.PROXY_CONTROL_PUBSUB, p_ctrl)
    cside.alias(rpc.PROXY_STATE_PUBSUB,   p_state)
    cside.alias(rpc.PROXY_TASK_QUEUE,     p_taskq)
    cside.reg['cfg.session_sandbox'] = 'file://localhost%s' % ssbox
    os.chdir(csbox)
    with C.group('fwd:client'):
        cside.session._crosswire_proxy()
    tmgr = W.make_tmgr(cside, components=True, scheduler=scheduler)

    # pilot ---------------------------------------------------------------------
    lay = dict(layout or {})
    side = A.make_pilot(sim, lay, root, sandboxes=(rsbox, ssbox, psbox))
    side.alias(rpc.PROXY_CONTROL_PUBSUB, p_ctrl)
    side.alias(rpc.PROXY_STATE_PUBSUB,   p_state)
    side.alias(rpc.PROXY_TASK_QUEUE,     p_taskq)
    with C.group('fwd:%s' % PID):
        side.session._crosswire_proxy()

    comps = A.start_components(side, ['agent_staging_input',
                                      'agent_scheduling', 'agent_executing',
                                      'agent_staging_output'])
    agent0 = make_agent0(sim, side)

    pilot_doc = {'uid': PID, 'type': 'pilot', 'state': rps.PMGR_ACTIVE,
                 'description': {'resource': 'local.localhost',
                                 'cores': lay.get('nodes', 2) *
                                 lay.get('cpn', 4),
                                 'sandbox': '%s/remote' % root,
                                 'access_schema': None},
                 'pilot_sandbox': 'file://localhost%s/' % psbox,
                 'js_hop': 'fork://localhost/'}
    pilot = pmgr = None
    if real_pilot:
        # a real Pilot object from a real PilotManager (no launcher: the
        # driver reports it ACTIVE): Pilot.stage_in/out, Pilot.as_dict
        pmgr = W.make_pmgr(cside)
        pd = rp.PilotDescription({'resource': 'local.localhost',
                                  'runtime' : 60, 'exit_on_error': False,
                                  'cores'   : lay.get('nodes', 2) *
                                              lay.get('cpn', 4),
                                  'sandbox' : '%s/remote' % root})
        pd.uid = PID
        pilot = pmgr.submit_pilots(pd)
        pub = W.state_publisher(cside)
        pub.put(rpc.STATE_PUBSUB, {'cmd': 'update', 'arg': [
            {'uid': PID, 'type': 'pilot', 'state': rps.PMGR_ACTIVE}]})
        W.wait_until(sim, lambda: pilot.state == rps.PMGR_ACTIVE, 10.0)
    return {'client': cside, 'pilot': side, 'tmgr': tmgr, 'agent0': agent0,
            'comps': comps, 'pilot_doc': pilot_doc, 'csbox': csbox,
            'psbox': psbox, 'ssbox': ssbox, 'rsbox': rsbox,
            'pilot_obj': pilot, 'pmgr': pmgr}


def make_agent0(sim, side):
    '''the real Agent_0 proxy in/out callbacks, on an instance built without
    the constructor (no sub-agents, services, lifetime watcher)'''
    from radical.pilot.agent.agent_0 import Agent_0
    acfg = ru.Config(from_dict={'uid': 'agent_0', 'pid': PID, 'sid': SID,
                                'owner': PID, 'cmgr_url': None,
                                'reg_addr': side.reg_url, 'services': []})
    with C.group('agent_0'):
        a = object.__new__(Agent_0)
        rpu.AgentComponent.__init__(a, acfg, side.session)
        a._pid = PID
        a._sid = SID
        a._final_cause = None

        def initialize():
            a.register_output(rps.AGENT_STAGING_INPUT_PENDING,
                              rpc.AGENT_STAGING_INPUT_QUEUE)
            a.register_output(rps.TMGR_STAGING_OUTPUT_PENDING,
                              rpc.PROXY_TASK_QUEUE)
            a.register_input(rps.AGENT_STAGING_INPUT_PENDING,
                             rpc.PROXY_TASK_QUEUE, qname=PID,
                             cb=a._proxy_input_cb)
            a.register_input(rps.TMGR_STAGING_OUTPUT_PENDING,
                             rpc.AGENT_COLLECTING_QUEUE,
                             cb=a._proxy_output_cb)
        a.initialize = initialize
        a.start()
    side.comps['agent_0'] = a
    return a
