'''
World B: the client side.  Real TaskManager / Task / PilotManager / Pilot (and
optionally the real tmgr components) on a simulated client side; agents are
replaced by a notification driver.
'''

import os

import radical.utils as ru

from .  import common as C
from .. import kernel as K
from .. import net    as N

rp  = C.rp
rps = C.rps
rpc = C.rpc

_rcfgs = None


def local_rcfgs():
    '''the shipped resource configs of site `local` (read once)'''
    global _rcfgs
    if _rcfgs is None:
        from radical.pilot.resource_config import ResourceConfig
        raw = ru.Config('radical.pilot.resource', name='local', expand=False)
        out = ru.Config()
        out['local'] = ru.Config()
        for res, rcfg in raw.items():
            out['local'][res] = ResourceConfig(rcfg)
        _rcfgs = out
    return _rcfgs


def make_client(sim, root=None, sid='rp.session.sim'):
    '''the client side: registry, control + state pubsub, session shell'''

    side = C.Side(sim, 'client')
    sim.data['sides_by_reg'][side.reg_url] = side
    side.add_pubsub(rpc.CONTROL_PUBSUB)
    side.add_pubsub(rpc.STATE_PUBSUB)

    root = root or '/nonexistent/dst'
    cfg  = {'sid'           : sid,
            'base'          : root,
            'path'          : '%s/%s' % (root, sid),
            'client_sandbox': '%s/client' % root,
            'reg_addr'      : side.reg_url,
            'proxy_url'     : None,
            'heartbeat'     : {'interval': 10.0, 'timeout': 600.0}}
    side.reg['cfg'] = cfg
    sess = C.SimSession(side, sid, rp.Session._PRIMARY, cfg, module='client')
    sess._rcfgs = local_rcfgs()
    side.session = sess
    return side


NO_COMPONENTS = {'components': {'tmgr_staging_input' : {'count': 0},
                                'tmgr_scheduling'    : {'count': 0},
                                'tmgr_staging_output': {'count': 0}}}

NO_PMGR_COMPONENTS = {'components': {'pmgr_launching': {'count': 0}}}


def make_tmgr(side, components=False, scheduler=None):
    cfg = None if components else dict(NO_COMPONENTS)
    with C.group('tmgr'):
        tmgr = rp.TaskManager(side.session, cfg=cfg if cfg else 'default',
                              scheduler=scheduler)
    return tmgr


def make_pmgr(side):
    with C.group('pmgr'):
        pmgr = rp.PilotManager(side.session, cfg=dict(NO_PMGR_COMPONENTS))
    return pmgr


def pilot_descr(root, uid=None, runtime=10, cores=4):
    pd = rp.PilotDescription({'resource': 'local.localhost',
                              'runtime' : runtime,
                              'cores'   : cores,
                              'exit_on_error': False,
                              'sandbox' : '%s/sbox' % root})
    if uid:
        pd.uid = uid
    return pd


def state_publisher(side):
    '''a raw publisher on the client state pubsub (plays "the agents")'''
    cfg = side.reg['bridges.%s' % rpc.STATE_PUBSUB]
    return N.Publisher(rpc.STATE_PUBSUB, url=cfg['addr_pub'])


def control_publisher(side):
    cfg = side.reg['bridges.%s' % rpc.CONTROL_PUBSUB]
    return N.Publisher(rpc.CONTROL_PUBSUB, url=cfg['addr_pub'])


TASK_STATES = [rps.NEW,
               rps.TMGR_SCHEDULING_PENDING, rps.TMGR_SCHEDULING,
               rps.TMGR_STAGING_INPUT_PENDING, rps.TMGR_STAGING_INPUT,
               rps.AGENT_STAGING_INPUT_PENDING, rps.AGENT_STAGING_INPUT,
               rps.AGENT_SCHEDULING_PENDING, rps.AGENT_SCHEDULING,
               rps.AGENT_EXECUTING_PENDING, rps.AGENT_EXECUTING,
               rps.AGENT_STAGING_OUTPUT_PENDING, rps.AGENT_STAGING_OUTPUT,
               rps.TMGR_STAGING_OUTPUT_PENDING, rps.TMGR_STAGING_OUTPUT]

PILOT_STATES = [rps.NEW, rps.PMGR_LAUNCHING_PENDING, rps.PMGR_LAUNCHING,
                rps.PMGR_ACTIVE_PENDING, rps.PMGR_ACTIVE]

FINAL = [rps.DONE, rps.FAILED, rps.CANCELED]


def wait_until(sim, pred, timeout=30.0, poll=0.05):
    '''driver helper: poll a predicate in virtual time'''
    end = sim.now + timeout
    while not pred():
        if sim.now >= end:
            return False
        sim.sleep(poll)
    return True
