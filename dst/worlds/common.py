'''
Shared world construction: sides (client / pilot) with registry, bridges, a
session shell around the real Session methods, an in-process component
manager, and the run harness.
'''

import os
import copy
import shutil
import tempfile

import radical.utils as ru

from .. import kernel as K
from .. import prims  as P
from .. import net    as N
from .. import seams

rp  = seams.import_rp()
RUP = seams.patch()

import radical.pilot.states    as rps                              # noqa
import radical.pilot.constants as rpc                              # noqa
import radical.pilot.utils     as rpu                              # noqa

TMP_BASE = os.environ.get('VERIF_TMP', '/dev/shm' if os.path.isdir('/dev/shm')
                          else tempfile.gettempdir())


# ------------------------------------------------------------------------------
#
class SimSession(rp.Session):
    '''
    the real Session class without its constructor: everything the real
    methods read is set up here (DESIGN 2.3 "Sides")
    '''

    def __init__(self, side, uid, role, cfg, rcfg=None, module=None):
        self._side    = side
        self._role    = role
        self._uid     = uid
        self._cfg     = ru.Config(from_dict=cfg)
        self._rcfg    = ru.Config(from_dict=rcfg or {})
        self._rcfgs   = dict()
        self._module  = module or side.name
        self._reg     = N.RegistryClient(side.reg_url)
        self._log     = N.NullLog('session.%s' % side.name)
        self._prof    = N.NullProf()
        self._rep     = N.NullProf()
        self._reporter = self._rep
        self._to_stop = list()
        self._pmgrs   = dict()
        self._tmgrs   = dict()
        self._cmgr    = None
        self._rm      = None
        self._closed  = False
        self._proxy   = None
        self._cache_lock = P.RLock()
        self._cache   = {'endpoint_fs'      : dict(),
                         'resource_sandbox' : dict(),
                         'session_sandbox'  : dict(),
                         'pilot_sandbox'    : dict(),
                         'client_sandbox'   : self._cfg.client_sandbox,
                         'js_shells'        : dict(),
                         'fs_dirs'          : dict()}

    def __deepcopy__(self, memo):
        return self

    def _get_logger(self, name, level=None, debug=None):
        return N.NullLog(name)

    def _get_profiler(self, name):
        return N.NullProf(name)

    def _get_reporter(self, name):
        return self._rep

    def close(self, **kw):
        # closing a real session takes time (bridges, components): worlds
        # may ask for a seeded duration
        sim = K.cur()
        d = sim.data.get('session_close_time') if sim else None
        if d and sim.in_sim_thread():
            sim.sleep(d)
        self._closed = True


# ------------------------------------------------------------------------------
#
class Side(object):
    '''one side of the proxy: the client, or one pilot'''

    def __init__(self, sim, name):
        self.sim     = sim
        self.name    = name
        self.net     = N.net()
        self.reg_url = self.net.new_registry(name)
        self.reg     = N.RegistryClient(self.reg_url)
        self.session = None
        self.comps   = dict()

    def __deepcopy__(self, memo):
        return self

    def add_pubsub(self, channel):
        b = self.net.new_pubsub(self.name, channel)
        self.reg['bridges.%s' % channel] = b.cfg()
        return b

    def add_queue(self, channel):
        b = self.net.new_queue(self.name, channel)
        self.reg['bridges.%s' % channel] = b.cfg()
        return b

    def alias(self, channel, bridge):
        '''make a bridge of another side visible here (proxy channels)'''
        self.reg['bridges.%s' % channel] = bridge.cfg()


class group(object):
    '''threads spawned inside carry this group (component) label'''

    def __init__(self, name):
        self.name = name

    def __enter__(self):
        t = K.cur().current
        self.prev = t.group if t else None
        if t:
            t.group = self.name

    def __exit__(self, *a):
        t = K.cur().current
        if t:
            t.group = self.prev


# ------------------------------------------------------------------------------
#
class SimComponentManager(object):
    '''
    replaces rpu.ComponentManager: bridges become sim bridges, components are
    the real classes instantiated through the real factory, in-process.
    '''

    def __init__(self, sid, reg_addr, owner):
        self._sid      = sid
        self._reg_addr = reg_addr
        self._owner    = owner
        self._reg      = N.RegistryClient(reg_addr)
        self._cfg      = ru.Config(from_dict=self._reg['cfg'])
        self._uid      = RUP.generate_id('cmgr.%(item_counter)04d')
        self.components = list()
        sim = K.cur()
        sim.data.setdefault('cmgrs', []).append(self)

    def __deepcopy__(self, memo):
        return self

    @property
    def uid(self):
        return self._uid

    def _side(self):
        return K.cur().data['sides_by_reg'][self._reg_addr]

    def start_bridges(self, bridges):
        if not bridges:
            return
        side = self._side()
        for bname, bcfg in bridges.items():
            kind = bcfg.get('kind')
            if self._reg['bridges.%s' % bname]:
                continue
            if kind == 'queue':
                side.add_queue(bname)
            else:
                side.add_pubsub(bname)

    def start_components(self, components, cfg=None):
        if not components:
            return
        side = self._side()
        for cname, ccfg in components.items():
            for _ in range(ccfg.get('count', 1)):
                uid = RUP.generate_id(cname + '.%(item_counter)04d')
                c = ru.Config(from_dict=copy.deepcopy(dict(ccfg)))
                c.uid       = uid
                c.kind      = cname
                c.owner     = self._owner
                c.sid       = self._cfg.sid
                c.cmgr      = self._uid
                c.cmgr_url  = None
                c.base      = self._cfg.base
                c.path      = self._cfg.path
                c.reg_addr  = self._cfg.reg_addr
                c.proxy_url = self._cfg.proxy_url
                if cfg:
                    ru.dict_merge(c, cfg, ru.OVERWRITE)
                self._reg['components.%s.cfg' % uid] = c
                with group(uid):
                    comp = rpu.BaseComponent.create(c, side.session)
                    comp.start()
                self.components.append(comp)
                side.comps[uid] = comp

    def close(self):
        for c in self.components:
            try:
                c.stop()
            except Exception:
                pass


def install_cmgr():
    '''replace rpu.ComponentManager where the managers look it up'''
    import radical.pilot.utils as u
    u.ComponentManager = SimComponentManager


# ------------------------------------------------------------------------------
#
class RunResult(dict):
    pass


def run_world(seed, build, trace=None, max_steps=100000, yield_prob=1.0,
              preempt=None, tmp=False, cfg=None, stall_prob=0.0):
    '''
    generic harness:  `build(sim, cfg)` returns a driver function which runs as
    a sim thread; the universe ends when the driver returns.  After that
    `cfg['final'](sim)` (if any) evaluates history oracles.

    returns RunResult(status=ok|violation|inconclusive|harness_error, ...)
    '''
    seams.reset_globals()
    sim = K.new_sim(seed, trace=trace, yield_prob=yield_prob)
    cfg = cfg if cfg is not None else dict()
    root = None
    if tmp:
        root = tempfile.mkdtemp(prefix='dst.%s.' % seed, dir=TMP_BASE)
        sim.data['tmp'] = root
    if preempt:
        sim.preempt_files, sim.preempt_prob = preempt
    sim.stall_prob = stall_prob or 0.0
    res = RunResult(seed=seed, status='ok', violations=[], error=None)
    state = {'done': False, 'err': None}
    cwd = os.getcwd()
    # a run neither depends on the ambient environment of its caller nor
    # leaves anything in it (TMPDIR is what the code under test looks at)
    env0 = dict(os.environ)
    os.environ.pop('TMPDIR', None)
    if root:
        os.makedirs('%s/tmp' % root, exist_ok=True)
        os.environ['TMPDIR'] = '%s/tmp' % root
    tmpdir0 = tempfile.tempdir
    try:
        install_cmgr()
        sim.data['sides_by_reg'] = dict()
        driver = build(sim, cfg)

        def _driver():
            try:
                driver()
            finally:
                state['done'] = True

        dt = sim.spawn(_driver, 'driver', group='driver')
        why = sim.run(stop=lambda: state['done'], max_steps=max_steps)
        res['end'] = why
        if dt.error:
            res['status'] = 'harness_error'
            res['error']  = dt.error
        elif why == 'cap':
            res['status'] = 'inconclusive'
            res['error']  = ('step cap', '')
        elif why == 'quiescent' and not state['done']:
            res['status'] = 'inconclusive'
            res['error']  = ('driver blocked forever: %s' % dt.what, '')
        if res['status'] == 'ok' and cfg.get('final'):
            cfg['final'](sim)
        if res['status'] == 'ok' and sim.violations:
            res['status'] = 'violation'
        res['violations'] = list(sim.violations)
    except K.HarnessError as e:
        import traceback
        res['status'] = 'harness_error'
        res['error']  = (repr(e), traceback.format_exc())
    except Exception as e:                                   # noqa
        import traceback
        res['status'] = 'harness_error'
        res['error']  = (repr(e), traceback.format_exc())
    finally:
        try:
            sim.teardown()
        except BaseException:                                # noqa
            pass
        os.chdir(cwd)
        for k in list(os.environ):
            if k not in env0:
                del os.environ[k]
        for k, val in env0.items():
            if os.environ.get(k) != val:
                os.environ[k] = val
        tempfile.tempdir = tmpdir0
        if root:
            shutil.rmtree(root, ignore_errors=True)
    res['steps']    = sim.steps
    res['sim_time'] = round(sim.now - sim.t0, 3)
    res['faults']   = dict(sim.faults)
    res['probes']   = dict(sim.probes)
    res['digest']   = sim.digest()
    res['trace']    = sim.ch.trace
    res['diverged'] = sim.ch.diverged
    res['thread_errors'] = [(n, e) for n, e, tb in sim.thread_errors]
    res['nevents']  = len(sim.events)
    res['sim']      = sim
    # default abstract state of a run (checks may set a sharper one): which
    # event kinds occurred, how often (order of magnitude), which faults and
    # probes fired
    hist = dict()
    for e in sim.events:
        hist[e['kind']] = hist.get(e['kind'], 0) + 1
    res.setdefault('state_fp', [sorted((k, n.bit_length())
                                       for k, n in hist.items()),
                                sorted(sim.faults), sorted(sim.probes)])
    return res
