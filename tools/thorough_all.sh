#!/bin/bash
# usage: thorough_all.sh <budget seconds per check> [VERIF_SEED] - thorough tier of every registered check, bounded per check
cd "$(dirname "$0")/.."
[ -n "$VP_RUN_REPO" ] && export VERIF_REPO_SRC=$VP_RUN_REPO/src
export VERIF_EVIDENCE=${VERIF_EVIDENCE:-/dev/shm/th-evidence.$$}
export VERIF_REPLAYS=${VERIF_REPLAYS:-$(pwd)/replays}
export VERIF_BUDGET_S=${1:-600}
export VERIF_SEED=${2:-0}
for P in $(python3 -c "import json;print(' '.join(c['property_id'] for c in json.load(open('MANIFEST.json'))['checks']))"); do
  ./check $P --tier thorough 2>&1 | grep -E "^VIOLATION|signature=|thorough:|HARNESS" | cut -c1-220
done
