#!/usr/bin/env python3
'''regenerate MANIFEST.json from the table below'''
import json, os
ROOT = os.path.dirname(os.path.dirname(os.path.abspath(__file__)))

CHECKS = {
 'C01': dict(
   text='seeded search over node layouts, task streams (incl. fractional GPUs, lfs/mem, tags, priorities, application-supplied slots), completions and cancels in the agent world: real scheduler parent + forked child (+ real executor/stagers in full-agent runs); step invariant = resource ledger over the grant/release history (core_shared, gpu_over, lfs_over, mem_over, down_used, agent_node_used). Sampling, not proof.',
   ref='4 (C01)',
   note='trusted: simulator fakes (transport, fork = deep copy with shared IPC objects, task processes with seeded runtime/exit code); client side and agent_0 are played by the driver; Continuous and (scheduler focus, JSRUN launch method configured) ContinuousJsrun schedulers',
   technique='deterministic simulation: seeded workloads + schedule search, resource-ledger step invariant'),
 'C02': dict(
   text='every grant of the C01 worlds is compared with the task description as submitted (rank count, node exists, exact distinct cores, GPU amount, lfs/mem, ranks_per_node, colocate history) and oversize requests must be rejected. Sampling, not proof.',
   ref='4 (C02)',
   note='trusted: simulator fakes (transport, fork = deep copy with shared IPC objects, task processes with seeded runtime/exit code); client side and agent_0 are played by the driver; Continuous and (scheduler focus, JSRUN launch method configured) ContinuousJsrun schedulers',
   technique='deterministic simulation: seeded workloads + schedule search, per-grant shape oracle'),
 'C03': dict(
   text='full agent with every way a task can end (exit 0/non-0, cancel before/after spawn/at exit, timeout, spawn error, exit racing the kill) and line-level pre-emption in the executor; history oracle: releases per granted uid == 1, scheduler node map back to initial capacity once nothing is held (Continuous and ContinuousJsrun). Sampling, not proof.',
   ref='4 (C03)',
   note='trusted: simulator fakes (transport, fork = deep copy with shared IPC objects, task processes with seeded runtime/exit code); client side and agent_0 are played by the driver; Continuous and (scheduler focus, JSRUN launch method configured) ContinuousJsrun schedulers',
   technique='deterministic simulation with fault injection: exactly-once release + capacity conservation at quiescence'),
 'C04': dict(
   text='scheduler focus (real parent + forked child, stub executor): cancels and env registrations land anywhere in the loop; safety: at most one report per uid, exactly one place at quiescence; bounded liveness at quiescence in unambiguous situations only (alone task fits idle pilot, unfit task failed, idle pilot starts one, fit task never failed). Sampling, not proof.',
   ref='4 (C04)',
   note='trusted: simulator fakes (transport, fork = deep copy with shared IPC objects, task processes with seeded runtime/exit code); client side and agent_0 are played by the driver; Continuous and (scheduler focus, JSRUN launch method configured) ContinuousJsrun schedulers',
   technique='deterministic simulation: exactly-one-bucket safety + bounded liveness after faults stop'),
 'C07': dict(
   text='executor focus and full agent with real Popen (work loop, watcher, timeout watcher, control listener): cancel at any instant (event-triggered into the narrow windows), exit at any instant incl. between poll and killpg, timeouts on the virtual clock, spawn errors, line-level pre-emption; oracle per accepted uid: announced once, handed on once (staging-out with outcome, or FAILED), released once, never both cancelled and collected, never left behind. Sampling, not proof.',
   ref='4 (C07)',
   note='trusted: simulator fakes (transport, fork = deep copy with shared IPC objects, task processes with seeded runtime/exit code); client side and agent_0 are played by the driver; Continuous and (scheduler focus, JSRUN launch method configured) ContinuousJsrun schedulers',
   technique='deterministic simulation with fault injection: exactly-once oracle under thread interleaving'),
 'C08': dict(
   text='full agent / scheduler focus with cancel requests naming seeded subsets at seeded and event-triggered instants; oracle: bystanders reach the outcome fixed by the workload and are never cancelled/lost, named tasks leave the wait pool, a named task whose process was alive when the request reached the executor - or which was spawned after the request had reached it - does not run to its natural end, resources via C03 ledger; focus raptor (10%): requests waiting in the raptor backlog of the scheduler are named and must not be handed to the master later; focus e2e (15%): the request is issued through TaskManager.cancel_tasks and travels through forwarders and proxy, the named running process must be stopped within 3 virtual seconds (+ partition time). Sampling, not proof.',
   ref='4 (C08)',
   note='trusted: simulator fakes (transport, fork = deep copy with shared IPC objects, task processes with seeded runtime/exit code); client side and agent_0 are played by the driver; Continuous and (scheduler focus, JSRUN launch method configured) ContinuousJsrun schedulers',
   technique='deterministic simulation: cancel-placement sweep, bystander/named outcome oracle'),
 'C06': dict(
   text='seeded search over notification histories (dup, reorder, skipped, stale, contradictory finals, unknown uids, mixed batches, concurrent submits and callback registration) delivered to the real TaskManager/Task under a simulated transport and scheduler; oracle = refinement against a reference model of the linear state machine, checked at every callback and at quiescence. Sampling, not proof.',
   ref='4 (C06)',
   note='trusted: simulator fakes for pubsub/registry/threads (FIFO per link, copies on send); tmgr components and agents are replaced by the driver',
   technique='deterministic simulation: seeded notification histories + schedule search, reference-model refinement oracle'),

 'C13': dict(
   text='seeded search over pilot crash points: 2-3 real Pilot objects and 2-8 real Task objects (early bound, late bound, unbound, final) moved by a notification driver; pilots end in every final state, order and position, with and without a sync point before the death; oracle = reference model of binding + pilot death vs. Task.state/exception at quiescence. Sampling, not proof.',
   ref='4 (C13)',
   note='trusted: simulator fakes; tasks with a notification in flight during an unsynced pilot death are excluded from the oracle',
   technique='deterministic simulation: crash-point sweep of pilot final states over seeded task/pilot histories, reference-model oracle'),
 'C14': dict(
   text='(a) seeded pilot notification histories (dup, reorder, gaps, late non-final, contradictory finals, unknown pilots, several pilots per bulk) against the real PilotManager/Pilot with a reference linear model; (b) the real Agent_0 start/work-loop/_check_lifetime/stop/_ctrl_cancel_pilots/finalize under the virtual clock with seeded termination causes (runtime reached, cancel naming it or not, terminate, crash, clock jumps): killme.signal and published final state vs. cause. Sampling, not proof.',
   ref='4 (C14)',
   note='trusted: simulator fakes; Agent_0 is built without its constructor (no RM, sub-agents, services); bootstrap_0.sh is not executed; causes closer than 12 virtual seconds accept either state',
   technique='deterministic simulation: seeded notification histories + termination-cause injection under a virtual clock, reference-model oracle'),
 'C15': dict(
   text='seeded search over wait calls: Task.wait, TaskManager.wait_tasks, Pilot.wait, PilotManager.wait_pilots with seeded (uids, state none/one/several/final, timeout) run in application threads under the virtual clock while a driver moves real Task/Pilot objects along seeded timed trajectories; oracle = bounded return time after the awaited state is reached / entity final / timeout, no early return, returned states = actual states, bounded liveness (60 virtual seconds). Sampling, not proof.',
   ref='4 (C15)',
   note='trusted: simulator fakes and virtual clock; eps = 0.45 virtual seconds; "reached" = at or beyond the earliest requested state or final',
   technique='deterministic simulation: virtual-clock trajectories + concurrent wait calls, timing oracle with bounded liveness'),

 'C12': dict(
   text='seeded search over interleavings of task submissions (unbound / naming known, unknown, removed pilots), add/remove/re-add pilot commands, pilot state notifications and completion bulks against the real RoundRobin/Backfilling scheduler component (work loop, control listener, state listener); oracle against a sequential reference: forwarded exactly once, to the named pilot, never to an unknown / stably removed pilot, round-robin balance per bulk, backfilling eligibility window, high-water mark and usage returning to zero, bounded liveness (eligible pilot => forwarded) at quiescence. Sampling, not proof.',
   ref='4 (C12)',
   note='trusted: simulator fakes; TaskManager/pmgr/agents are played by the driver; membership and pilot-state changes count as in flux until the next sync point',
   technique='deterministic simulation: seeded op sequences + schedule search (3 component threads), sequential reference model'),
 'C16': dict(
   text='seeded search over message streams in a network of 1 client + 1-4 pilot sides with the real crosswire forwarders on every side: real advance() of agent/client components with default and explicit fwd, raw control/state messages with every fwd x origin combination, partitions (held, not lost) and late joins; oracle = per-side delivery-count model (origin side exactly 1, other connected sides exactly 1 iff forwarded and not foreign, else 0; no echo; bounded forwarder publications; network becomes idle). Sampling, not proof.',
   ref='4 (C16)',
   note='trusted: simulated pubsub transport (copies per subscriber, FIFO per link); the proxy service process itself is not run; Session objects are built without their constructor',
   technique='deterministic simulation: in-memory pubsub network, delivery-count model oracle'),

 'C20': dict(
   text='raptor world: real Master, DefaultWorker (request callback, allocator, forked dispatch process + forked call process, result watcher) and Worker dispatchers (function, method, eval, exec, proc, shell) plus the real agent scheduler raptor forwarding; master, worker and every forked request are separate simulated processes with their own os.environ, cwd and stdio; seeded request streams (core/GPU demands, payloads that return, print, raise, change the environment or stdout, sleep on the virtual clock, time out incl. completion == timeout, requests before the master registered) and faults (fork() failing for the dispatch or call process, message delays, stalled threads); oracles: step invariant slot_shared / alloc_shape on every allocation, at quiescence result_count == 1, target_state <=> exit code, routing by mode, (out, err, ret, val, exc) vs. payload truth table, alloc_leak, env_leak / stdio_leak of the worker process and around every dispatcher call (os.environ and sys.stdout before vs. after, in the process which runs the dispatcher), task service calls return exactly once; in half of the runs executable requests come back from the pilot executor (played by the driver) and must be reported once. Sampling, not proof.',
   ref='4 (C20), 9.6',
   note='trusted: simulator fakes (transport, fork = deep copy with shared IPC objects, per-process environ/cwd/stdio views); master task service (ru.zmq.Server) stubbed; heartbeats not exercised; MPI worker not driven; proc/shell payloads run the real /bin/true, /bin/false, /bin/echo while the calling sim thread holds the baton',
   technique='deterministic simulation with fault injection: seeded request streams + schedule search, allocation step invariant + result truth-table oracle at quiescence'),

 'C09': dict(
   text='full agent world on Slurm node names with a seeded launcher configuration (FORK, MPIRUN +MPT/RSH/CCMRUN/DPLACE, MPIEXEC +MPT with rank file / host file / PALS / -f modes, SRUN old/new, APRUN, IBRUN with/without tasks_per_node, SSH, RSH, CCMRUN, JSRUN by numbers and with ERF file on the ContinuousJsrun scheduler, PRTE with 1-3 DVMs; >42-host thresholds; left-over files of an earlier generation): the real scheduler chooses slots, the real executor asks the real find_launcher / get_launch_cmds; a spy records command + referenced files; oracle = reference parser (process count, node multiset or node set, rank-file / cpu-bind pins, ibrun host list offset) vs. the slots, command of a fresh launcher instance (history independence), refusal of multi-rank tasks by single-process methods. The history dimension (order in which tasks reach the one launcher object) is decided by the simulated schedule; the input dimension is seeded generation. Sampling, not proof.',
   ref='4 (C09)',
   note='trusted: reference command parsers (written from the launchers documented syntax), simulator fakes; launcher binaries are not executed; JSRUN ERF host numbers are compared with the node index of the placement (base 0 or 1 not decided); PRTE DVM start-up not driven (launcher initialised from a registry record)',
   technique='deterministic simulation: randomised launcher configuration in the full agent world, reference-parser oracle + fresh-instance differential'),

 'C05': dict(
   text='end-to-end world: real TaskManager, tmgr scheduler and stagers, real crosswire forwarders, real Agent_0 proxy callbacks, real agent stagers / scheduler (parent + forked child) / Popen executor, one live pilot (35% of the runs: real PilotManager/Pilot object with Pilot.stage_in; 30%: a second pilot whose agent is played by the driver, early or late bound); seeded workloads (exit codes, spawn errors, timeouts, multi-rank tasks without MPI launcher, staging directives with missing sources) and faults (exception in the work routine of each of 7 components, file system errors, cancels, message delays, stalled threads); history oracle per accepted task: exactly one final state (Task.state samples + TASK_STATE callback), truth table final state vs. injected outcome (false_done, false_failed, false_canceled, failed_without_reason), no component work thread dies, bounded liveness (final within 60 virtual seconds). Sampling, not proof.',
   ref='4 (C05)',
   note='trusted: simulator fakes; pilot launching and task processes are simulated; no message loss is injected (not promised); raptor Master._result_cb path is exercised in C20 only',
   technique='deterministic simulation with fault injection: end-to-end pipeline, truth-table oracle + bounded liveness'),
 'C11': dict(
   text='end-to-end world with a per-run temp root holding client, resource, session, pilot and task sandboxes; seeded directive lists over all actions (transfer, copy, link, move, tarball), short forms (bare, >, <) and dict forms with/without target, relative/absolute/schema URLs, missing sources, file system faults, task outcomes DONE/FAILED, stage_on_error; every source has unique content; oracle = executable reference resolver of the documented URL rules -> expected (path, content): in_missing / in_wrong_content after agent input staging, out_missing / out_wrong_content for DONE tasks, out_on_failure, fault_not_contained, fault_spread. Sampling, not proof.',
   ref='4 (C11)',
   note='trusted: reference resolver; real  / os.link / shutil.move / tarfile run on a temp tree; SAGA / remote back ends not covered; simulated process "produces" declared output files at spawn',
   technique='deterministic simulation with fault injection: end-to-end staging on temp file trees, reference-resolver oracle'),
}

NA = [
  ("C10", "pure function description -> script text + bash semantics; no schedule, clock, fault or peer for a simulator to own"),
  ("C17", "finite config enumeration x pure sizing arithmetic; nothing concurrent, timed or faulty"),
  ("C18", "node-file parsing and filtering are pure functions of env/file/layout; no schedule or fault dimension"),
  ("C19", "round-trip identities of pure (de)serialisation functions; quantified over inputs only"),
]
ALL = ['C%02d' % i for i in range(1, 21)]
PENDING = "check not built yet in this round (planned as deterministic simulation, see DESIGN.md section 4); not claimed until it runs"

def main():
    checks = []
    for pid in sorted(CHECKS):
        c = CHECKS[pid]
        checks.append({
            'property_id': pid,
            'quick_cmd': './check %s --tier quick' % pid,
            'thorough_cmd': './check %s --tier thorough' % pid,
            'evidence_file': 'evidence/%s.json' % pid,
            'replay_cmd_template': './check %s --replay {path}' % pid,
            'engine': 'dst',
            'level_claimed': {'category': 'exploration', 'text': c['text'],
                              'design_ref': c['ref']},
            'level_note': c['note'],
            'technique': c['technique'],
        })
    na = [{'property_id': p, 'reason': r} for p, r in NA]
    nas = {p for p, r in NA}
    for pid in ALL:
        if pid not in CHECKS and pid not in nas:
            na.append({'property_id': pid, 'reason': PENDING})
    na.sort(key=lambda x: x['property_id'])
    m = {
     'version': 1,
     'setup_cmd': './tools/setup.sh',
     'hooks': {
       'guard': 'RADICAL_PILOT_VERIF',
       'enable': 'no source hooks needed: the harness replaces the module globals (time, mt, mp, sp, queue, os, ru) of the imported radical.pilot modules at run time; /repo/src is imported as is',
       'baseline_off_cmd': 'python3 /verif/tools/baseline_check.py',
       'source_commits': [],
       'add_only': True},
     'engines': [{'name': 'dst', 'path': 'dst/', 'serves_properties': sorted(CHECKS),
                  'kind_free_text': 'deterministic simulation kernel (baton-passing threads, virtual clock, seeded choice source, simulated transport/processes) + per-property worlds, oracles, minimiser and replay'}],
     'checks': checks,
     'not_applicable': na,
     'notes': 'fix: commits in /repo are listed in known_findings.json (fixed). Exit codes: 0 held, 1 VIOLATION, 2 harness error.',
    }
    with open(os.path.join(ROOT, 'MANIFEST.json'), 'w') as f:
        json.dump(m, f, indent=1)

main()
