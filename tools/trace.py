#!/venv/bin/python
'''debug helper: re-run a replay file (or PROP SEED) and print compact events
usage: tools/trace.py <replay.json>|<PROP> <seed> [lo hi] [substr ...]'''
import sys, os, json
if os.environ.get('PYTHONHASHSEED') is None:
    os.environ['PYTHONHASHSEED'] = '0'
    os.execv(sys.executable, [sys.executable] + sys.argv)
sys.path.insert(0, os.path.dirname(os.path.dirname(os.path.abspath(__file__))))
args = sys.argv[1:]
sys.argv = ['x']
import dst.main as M
if args[0].endswith('.json'):
    doc = json.load(open(args[0])); args = args[1:]
    mod = M.load(doc['property'])
    out = M.run_seed(mod, doc['seed'], doc.get('tier', 'quick'), scenario=doc['scenario'], trace=doc['trace'], keep=True)
else:
    mod = M.load(args[0]); seed = int(args[1]); args = args[2:]
    out = M.run_seed(mod, seed, 'quick', keep=True)
lo, hi = 0, 10**9
if len(args) >= 2 and args[0].isdigit():
    lo, hi = int(args[0]), int(args[1]); args = args[2:]
print(out['status'], out['sigs'])
for e in out['events']:
    if not (lo <= e['seq'] <= hi): continue
    m = e.get('m') or {}
    th = m.get('things')
    if e['kind'] == 'pub' and e.get('chan') == 'agent_unschedule_pubsub' and not th: continue
    if m.get('cmd') == 'pmgr_heartbeat': continue
    e = {k: v for k, v in e.items() if k != 'obj'}
    line = json.dumps(e, default=repr)
    if args and not any(a in line for a in args): continue
    print(line[:400])
