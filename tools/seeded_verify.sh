#!/bin/bash
# usage: seeded_verify.sh <name> <worktree> <demo-file> -- verify an agent made seeded defect and store it under /verif/seeded/<name>
set -u
NAME=$1; WT=$2; DEMO=$3
cd $WT || exit 2
git diff -- src | sed 's/\r$//' > /dev/shm/$NAME.patch
[ -s /dev/shm/$NAME.patch ] || { echo "empty patch"; exit 2; }
echo "== demo WITH change"; PYTHONPATH=$WT/src timeout 300 /venv/bin/python $DEMO > /dev/shm/$NAME.with.log 2>&1; W=$?; tail -3 /dev/shm/$NAME.with.log
git checkout -- src
echo "== demo WITHOUT change"; PYTHONPATH=$WT/src timeout 300 /venv/bin/python $DEMO > /dev/shm/$NAME.without.log 2>&1; WO=$?; tail -3 /dev/shm/$NAME.without.log
git apply /dev/shm/$NAME.patch
echo "exit with=$W without=$WO"
echo "== test suite with change"
PYTHONPATH=$WT/src timeout 900 /venv/bin/python -m pytest -q -p no:cacheprovider --timeout=900 --continue-on-collection-errors tests 2>&1 | tail -1
mkdir -p /verif/seeded/$NAME
cp /dev/shm/$NAME.patch /verif/seeded/$NAME/patch.diff
cp $DEMO /verif/seeded/$NAME/
[ -f $WT/demo/NOTES.md ] && cp $WT/demo/NOTES.md /verif/seeded/$NAME/
echo "{\"demo_exit_with_change\": $W, \"demo_exit_without_change\": $WO}" > /verif/seeded/$NAME/verify.json
rm -f /dev/shm/$NAME.*
