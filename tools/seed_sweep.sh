#!/bin/bash
# usage: seed_sweep.sh "<check ids>" <seed> [<seed> ...] - quick tier of the given checks for several VERIF_SEED values
cd "$(dirname "$0")/.."
[ -n "$VP_RUN_REPO" ] && export VERIF_REPO_SRC=$VP_RUN_REPO/src
export VERIF_EVIDENCE=${VERIF_EVIDENCE:-/dev/shm/ms-evidence.$$}
export VERIF_REPLAYS=${VERIF_REPLAYS:-$(pwd)/replays}
IDS=$1; shift
for S in "$@"; do
  for P in $IDS; do
    VERIF_SEED=$S ./check $P --tier quick 2>&1 | grep -E "^VIOLATION|signature=|quick:|HARNESS" | cut -c1-220 | sed "s/^/[seed $S] /"
  done
done
