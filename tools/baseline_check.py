#!/usr/bin/env python3
'''run the repository's pinned suite (guard off) and compare with BASELINE.json:
every test in stable_pass must pass.  exit 0 iff so.'''
import os, sys, json, subprocess, tempfile
import xml.etree.ElementTree as ET

base = json.load(open('/root/.vp/BASELINE.json'))
want = set(base['stable_pass'])
fd, xml = tempfile.mkstemp(suffix='.xml', dir='/dev/shm' if os.path.isdir('/dev/shm') else None)
os.close(fd)
env = dict(os.environ)
for k in list(env):
    if k.startswith('RADICAL_PILOT_VERIF'):
        del env[k]
cmd = base['cmd'].replace('<file>', xml)
subprocess.run(cmd, shell=True, env=env, stdout=subprocess.DEVNULL, stderr=subprocess.DEVNULL)
passed = set()
for tc in ET.parse(xml).getroot().iter('testcase'):
    bad = [c for c in tc if c.tag in ('failure', 'error', 'skipped')]
    if not bad:
        passed.add('%s::%s' % (tc.get('classname'), tc.get('name')))
os.unlink(xml)
missing = sorted(want - passed)
print('baseline: %d of %d stable tests pass' % (len(want & passed), len(want)))
for m in missing:
    print('  NOT PASSING:', m)
sys.exit(1 if missing else 0)
