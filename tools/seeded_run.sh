#!/bin/bash
# usage: seeded_run.sh <name> <PROP> [more props]: apply /verif/seeded/<name>/patch.diff to /repo, run checks, undo
NAME=$1; shift
cd /repo || exit 2
git diff --quiet || { echo "repo dirty"; exit 2; }
git apply /verif/seeded/$NAME/patch.diff || { echo "patch does not apply"; exit 2; }
trap 'git -C /repo checkout -- . ' EXIT
python3 /verif/tools/baseline_check.py | head -3
for P in "$@"; do
  cd /verif && VERIF_REPLAYS=/dev/shm/seeded-replays VERIF_EVIDENCE=/dev/shm/seeded-evidence ./check $P --tier ${TIER:-quick} 2>&1 | grep -E "^VIOLATION|signature=|quick:|thorough:|HARNESS" | cut -c1-200 | head -12
done
