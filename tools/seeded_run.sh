#!/bin/bash
# usage: seeded_run.sh <name|patchfile> <PROP> [more props]
# apply a seeded defect to a scratch worktree of /repo (so /repo itself stays
# untouched and other runs are not disturbed) and run the given checks
# against it via VERIF_REPO_SRC.  (Equivalent to: git -C /repo apply; check;
# git -C /repo checkout -- .)
NAME=$1; shift
VH=${VERIF_HOME:-/verif}
PATCH=$VH/seeded/$NAME/patch.diff
[ -f "$NAME" ] && PATCH=$NAME
WT=/dev/shm/mutrun.$$
git -C /repo worktree add -q --detach $WT HEAD || exit 2
trap 'git -C /repo worktree remove --force $WT' EXIT
git -C $WT apply $PATCH || { echo "patch does not apply"; exit 2; }
cp /repo/VERSION $WT/src/radical/pilot/VERSION 2>/dev/null
for P in "$@"; do
  cd $VH && VERIF_REPO_SRC=$WT/src VERIF_REPLAYS=/dev/shm/seeded-replays VERIF_EVIDENCE=/dev/shm/seeded-evidence ./check $P --tier ${TIER:-quick} ${SEEDS:+--seeds $SEEDS} 2>&1 | grep -E "^VIOLATION|signature=|quick:|thorough:|HARNESS" | cut -c1-200 | head -12
done
