#!/bin/bash
# usage: seeded_regress.sh [names...] -- run the check of the property each
# seeded change was written for against it (scratch worktree, /repo untouched)
# and print one line per change: caught / MISSED
cd ${VERIF_HOME:-/verif}
NAMES="$@"; [ -z "$NAMES" ] && NAMES=$(ls seeded)
for n in $NAMES; do
  [ -f seeded/$n/patch.diff ] || continue
  P=$(python3 -c "import json;print(json.load(open('seeded/$n/meta.json'))['breaks_property'])" 2>/dev/null)
  [ -z "$P" ] && continue
  out=$(tools/seeded_run.sh $n $P 2>&1)
  if echo "$out" | grep -q "^VIOLATION"; then echo "$n $P caught"; else echo "$n $P MISSED ($(echo "$out" | grep -E "quick:|thorough:" | tail -1))" | cut -c1-160; fi
done
