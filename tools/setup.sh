#!/bin/sh
# nothing to build: python 3.12 venv with the repo's dependencies is
# pre-installed; sanity-check that the harness can import the tree under test
set -e
cd "$(dirname "$0")/.."
mkdir -p evidence replays
PYTHONHASHSEED=0 /venv/bin/python -c "
import sys; sys.path.insert(0, '.')
from dst import seams
rp = seams.import_rp()
print('radical.pilot from', rp.__file__)
"
