#!/bin/bash
# usage: hunt3.sh <n> <prop> seeds...   -> distinct digest sequences over n fresh interpreters
cd /verif
N=$1; P=$2; shift 2; S="$*"
rm -rf /dev/shm/evd; mkdir -p /dev/shm/evd
one() { PYTHONHASHSEED=$((RANDOM)) /venv/bin/python dst/main.py _digests $2 $3 | cut -c1-10 | tr '\n' ' ' > /dev/shm/evd/$1.d; echo >> /dev/shm/evd/$1.d; }
export -f one
seq 1 $N | xargs -P 16 -I{} bash -c "one {} $P \"$S\""
echo "$P: $(cat /dev/shm/evd/*.d | sort | uniq -c | wc -l) distinct sequence(s) over $N interpreters"
cat /dev/shm/evd/*.d | sort | uniq -c | sort -rn | sed -n 2,4p
