#!/bin/bash
# run every registered check's quick tier for several VERIF_SEED values (alarm hunt)
# (works from any snapshot of /verif: paths are relative to this script; with
# `vp run --with-repo` the repository snapshot is used)
cd "$(dirname "$0")/.."
[ -n "$VP_RUN_REPO" ] && export VERIF_REPO_SRC=$VP_RUN_REPO/src
export VERIF_EVIDENCE=${VERIF_EVIDENCE:-/dev/shm/ms-evidence.$$}
export VERIF_REPLAYS=${VERIF_REPLAYS:-$(pwd)/replays}
for S in "$@"; do
  for P in $(python3 -c "import json;print(' '.join(c['property_id'] for c in json.load(open('MANIFEST.json'))['checks']))"); do
    VERIF_SEED=$S ./check $P --tier quick 2>&1 | grep -E "^VIOLATION|signature=|quick:|HARNESS|KNOWN" | cut -c1-220 | sed "s/^/[seed $S] /"
  done
done
