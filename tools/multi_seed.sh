#!/bin/bash
# run every registered check's quick tier for several VERIF_SEED values (alarm hunt)
cd /verif
for S in "$@"; do
  for P in $(python3 -c "import json;print(' '.join(c['property_id'] for c in json.load(open('MANIFEST.json'))['checks']))"); do
    VERIF_SEED=$S VERIF_EVIDENCE=/dev/shm/ms-evidence ./check $P --tier quick 2>&1 | grep -E "^VIOLATION|signature=|quick:|HARNESS|KNOWN" | cut -c1-220 | sed "s/^/[seed $S] /"
  done
done
